/-
  M12/C11 — executable mirror of the client's response reader for the families in which
  protocol-invariant violations can reach the caller:

    /repo/internal/imapwire/decoder.go   (readByte/acceptByte, SP, CRLF, Atom, Number*, Quoted,
                                          Literal, List with its depth limit, DiscardValue, ExpectNumSet)
    /repo/imapclient/client.go           (readResponse, readResponseTagged, readResponseData dispatch)
    /repo/imapclient/search.go           (handleSearch, handleESearch, readESearchResponse)
    /repo/imapclient/sort.go, thread.go  (handleSort, handleThread, readThreadList)
    /repo/imapclient/fetch.go            (handleFetch, readBody*, readEnvelope, …)
    /repo/imapclient/copy.go             (readRespCodeCopyUID), expunge.go, capability.go

  Conventions.  What Go does by panicking is `Res.panic`; a Go error (non-nil error / a failed
  `Expect…`) is `Res.err`; a response kind or construct outside the modelled fragment is
  `Res.unmod` (the driver then skips the comparison, the oracle still judges the implementation).
  Recursion is structural on `fuel` (every call consumes input, so `fuel = 2·|input| + c` never
  runs out; `Res.nofuel` otherwise).  The decoder's `listDepth` is the explicit parameter `depth`
  (Go restores it with `defer`, which is what passing it down models); ghost counters in the
  decoder state record the deepest level reached (`maxDepth`) and the number of byte reads (`cost`).
  `Legacy.*` keeps the behaviour before the repairs (no depth accounting in readBody; 0 accepted
  in SEARCH / SORT / THREAD / FETCH / EXPUNGE / APPENDUID) for the counterexample theorems.
-/
import GoImap.Util
import GoImap.Model.NumSet
namespace GoImap.ClientParse
open GoImap

/-- decoder.go: maxListDepth -/
def maxListDepth : Nat := 1000

/-! ### client state -/

inductive Kind where
  | search (uid : Bool) | sort | thread | fetch (uid : Bool) (set : NumSet.Set)
  | copy | move | append | expunge | other
deriving BEq

/-- repairs that can be switched off to obtain the behaviour before them (`Legacy`) -/
structure Cfg where
  rejectZero : Bool := true
  bodyDepth : Bool := true
  /-- a literal with a malformed header is an error, not "no literal here" -/
  strictLiteral : Bool := true

/-- what one FETCH response accumulates (FetchMessageBuffer, last value wins) -/
structure Msg where
  uid : Nat := 0
  size : Nat := 0
  modSeq : Nat := 0
  flags : Nat := 0
  body : Option String := none
  bodyDepth : Nat := 0
  env : Bool := false
  numAtts : Nat := 0
  /-- handleMsg has run: `some true` = handed to the command, `some false` = unilateral -/
  handled : Option Bool := none

def Msg.render (m : Msg) (seq : Nat) : String :=
  let items := (if m.uid != 0 then [s!"U{m.uid}"] else []) ++ (if m.size != 0 then [s!"Z{m.size}"] else []) ++
    (if m.modSeq != 0 then [s!"M{m.modSeq}"] else []) ++ (if m.flags != 0 then [s!"L{m.flags}"] else []) ++
    (match m.body with | some b => ["B" ++ b] | none => []) ++ (if m.env then ["E"] else [])
  toString seq ++ "{" ++ joinWith ";" items ++ "}"

structure CS where
  tag : Bytes
  kind : Kind
  pending : Bool := true
  cmdClass : String := "err"
  -- SearchCommand.data
  sAll : Option (Bool × NumSet.Set) := none
  sUID : Bool := false
  sMin : Nat := 0
  sMax : Nat := 0
  sCount : Nat := 0
  sModSeq : Nat := 0
  -- SortCommand.nums / ExpungeCommand.seqNums
  nums : List Nat := []
  -- ThreadCommand.data, rendered
  threads : String := ""
  -- FetchCommand: messages handed to the command, and recvSeqSet / recvUIDSet
  msgs : List String := []
  recv : NumSet.Set := []
  -- CopyData / MoveData / AppendData
  uidValidity : Nat := 0
  src : Option NumSet.Set := none
  dst : Option NumSet.Set := none
  appendUID : Nat := 0
  -- unilateral data handed to the handlers
  uni : List String := []
  /-- ghost: every message number handed to the caller outside of sets -/
  delivered : List Nat := []
  /-- ghost: deepest tree handed to the caller -/
  deliveredDepth : Nat := 0
  /-- the FETCH response being read (handleFetch's `msg` and the items sent so far) -/
  cur : Msg := {}

def isSearch (k : Kind) : Bool := match k with | .search _ => true | _ => false

/-- `bufio.Reader` + `imapwire.Decoder` state that matters, plus ghost counters. -/
structure Dec where
  inp : Bytes
  /-- the client's state (pending command and what it has been given so far); it lives here
      so that an error half-way through a response keeps what was already handed over -/
  cs : CS
  cfg : Cfg := {}
  /-- `dec.err != nil` although parsing goes on: set at end of input and by a literal whose
      header is malformed (the bytes read so far stay consumed) -/
  errSet : Bool := false
  /-- bufio: the last operation was a successful ReadByte (UnreadByte is then legal) -/
  canUnread : Bool := false
  prev : UInt8 := 0
  /-- ghost: number of byte reads performed (ReadByte calls and literal bytes) -/
  cost : Nat := 0
  /-- ghost: deepest `listDepth` reached -/
  maxDepth : Nat := 0

inductive Res (α : Type) where
  | ok : α → Dec → Res α
  | err : Dec → Res α
  | panic : Res α
  | unmod : Res α
  | nofuel : Res α

abbrev P (α : Type) := Dec → Res α

@[inline] def P.pure {α} (a : α) : P α := fun d => .ok a d
@[inline] def P.bind {α β} (p : P α) (f : α → P β) : P β := fun d =>
  match p d with
  | .ok a d' => f a d'
  | .err d' => .err d'
  | .panic => .panic
  | .unmod => .unmod
  | .nofuel => .nofuel

instance : Monad P where
  pure := P.pure
  bind := P.bind

def fail {α} : P α := fun d => .err d
def getCS : P CS := fun d => .ok d.cs d
def modifyCS (f : CS → CS) : P Unit := fun d => .ok () { d with cs := f d.cs }
/-- run `p`; whether it succeeds or fails, apply `h` to the state (Go: `defer`) -/
def finally' {α} (p : P α) (h : CS → CS) : P α := fun d =>
  match p d with
  | .ok a d' => .ok a { d' with cs := h d'.cs }
  | .err d' => .err { d' with cs := h d'.cs }
  | r => r
def unmodelled {α} : P α := fun _ => .unmod
def outOfFuel {α} : P α := fun _ => .nofuel

/-- `dec.Expect(ok, …)`: a Go error when `ok` is false -/
def expect (ok : Bool) : P Unit := if ok then pure () else fail

/-! ### bytes -/

def ch (c : Char) : UInt8 := UInt8.ofNat c.toNat

def isCtl (b : UInt8) : Bool := b < 32 || b == 127 || (128 ≤ b && b ≤ 159)

/-- decoder.go IsAtomChar (`unicode.IsControl(rune(ch))` is true for C0, DEL and C1) -/
def isAtomChar (b : UInt8) : Bool :=
  !(b == 40 || b == 41 || b == 123 || b == 32 || b == 37 || b == 42 || b == 34 || b == 92 || b == 93) && !isCtl b

def isDigitB (b : UInt8) : Bool := 48 ≤ b && b ≤ 57
def isNumSetChar (b : UInt8) : Bool := b == 42 || isAtomChar b
/-- fetch.go isMsgAttNameChar -/
def isMsgAttNameChar (b : UInt8) : Bool := b != 91 && isAtomChar b

def valOfB (bs : Bytes) : Nat := bs.foldl (fun n b => n * 10 + (b.toNat - 48)) 0

/-- ASCII upper-casing; `none` when a byte ≥ 0x80 occurs (Go folds case with Unicode tables there) -/
def upper? (bs : Bytes) : Option Bytes :=
  if bs.all (· < 128) then some (bs.map fun b => if 97 ≤ b && b ≤ 122 then b - 32 else b) else none

/-! ### decoder primitives -/

/-- decoder.go readByte: `none` at end of input (Go: ok = false, dec.err set) -/
def readByte : P (Option UInt8) := fun d =>
  match d.inp with
  | [] => .ok none { d with cost := d.cost + 1, errSet := true }
  | b :: r => .ok (some b) { d with inp := r, canUnread := true, prev := b, cost := d.cost + 1 }

/-- decoder.go mustUnreadByte: panics unless the last operation was a successful ReadByte -/
def unreadByte : P Unit := fun d =>
  if d.canUnread then .ok () { d with inp := d.prev :: d.inp, canUnread := false } else .panic

/-- decoder.go acceptByte -/
def acceptByte (w : UInt8) : P Bool := do
  match ← readByte with
  | none => pure false
  | some g => if g == w then pure true else do unreadByte; pure false

def special (w : UInt8) : P Bool := acceptByte w
def expectSpecial (w : UInt8) : P Unit := do expect (← special w)

/-- read one byte and put it back (`readByte` + `mustUnreadByte`): `none` at end of input -/
def peekByte : P (Option UInt8) := do
  match ← readByte with
  | none => pure none
  | some b => do unreadByte; pure (some b)

/-- decoder.go SP (including the "SP is optional before a parenthesised list" special case) -/
def sp : P Bool := do
  if ← acceptByte 32 then
    match ← peekByte with
    | none => pure false
    | some b => pure (b != 13 && b != 10)
  else
    match ← peekByte with
    | none => pure false
    | some b => pure (b == 40)

def expectSP : P Unit := do expect (← sp)

/-- decoder.go CRLF -/
def crlf : P Bool := do
  let _ ← acceptByte 32
  let _ ← acceptByte 13
  acceptByte 10

def expectCRLF : P Unit := do expect (← crlf)

def spanB (p : UInt8 → Bool) : Bytes → Bytes → Bytes × Bytes
  | [], acc => (acc.reverse, [])
  | b :: r, acc => if p b then spanB p r (b :: acc) else (acc.reverse, b :: r)

/-- decoder.go Func: bytes while `valid`; the first invalid byte is read and unread; end of
    input makes it fail whatever was collected -/
def func (valid : UInt8 → Bool) : P (Option Bytes) := fun d =>
  let (tk, rest) := spanB valid d.inp []
  match rest with
  | [] => .ok none { d with inp := [], cost := d.cost + tk.length + 1, errSet := true }
  | _ :: _ =>
    .ok (if tk.isEmpty then none else some tk)
      { d with inp := rest, canUnread := false, cost := d.cost + tk.length + 1 }

def atom : P (Option Bytes) := func isAtomChar
def expectAtom : P Bytes := do
  match ← atom with
  | some a => pure a
  | none => fail

/-- decoder.go Text -/
def text : P (Option Bytes) := func (fun b => b != 13 && b != 10)

/-- decoder.go DiscardUntilByte -/
def discardUntilByte (u : UInt8) : P Unit := do let _ ← func (· != u); pure ()

/-- decoder.go numberStr -/
def numberStr : P (Option Bytes) := func isDigitB

/-- decoder.go Number (`ParseUint(s, 10, 32)`), Number64 (`ParseInt(s, 10, 64)`), ModSeq (`ParseUint(s, 10, 64)`) -/
def numberBelow (bound : Nat) : P (Option Nat) := do
  match ← numberStr with
  | none => pure none
  | some s => pure (if valOfB s < bound then some (valOfB s) else none)

def number : P (Option Nat) := numberBelow 4294967296
def number64 : P (Option Nat) := numberBelow 9223372036854775808
def modSeq : P (Option Nat) := numberBelow 18446744073709551616

def expectOpt {α} (p : P (Option α)) : P α := do
  match ← p with
  | some a => pure a
  | none => fail

def expectNumber : P Nat := expectOpt number
def expectNumber64 : P Nat := expectOpt number64
def expectModSeq : P Nat := expectOpt modSeq

/-- the body of a quoted string after the opening quote: `none` at end of input -/
def quotedBody : Bytes → Bytes → Nat → Option (Bytes × Bytes × Nat)
  | [], _, _ => none
  | b :: r, acc, n =>
    if b == 34 then some (acc.reverse, r, n + 1)
    else if b == 92 then
      match r with
      | [] => none
      | c :: r' => quotedBody r' (c :: acc) (n + 2)
    else quotedBody r (b :: acc) (n + 1)

def quotedRest : P (Option Bytes) := fun d =>
  match quotedBody d.inp [] 0 with
  | none => .ok none { d with inp := [], cost := d.cost + d.inp.length + 1, errSet := true }
  | some (s, rest, n) => .ok (some s) { d with inp := rest, canUnread := true, prev := 34, cost := d.cost + n }

/-- decoder.go Quoted -/
def quoted : P (Option Bytes) := do
  if ← special 34 then quotedRest else pure none

/-- the payload of a literal: `size` bytes, or fewer when the input ends (io.Copy takes EOF
    for the end of the literal) -/
def literalData (size : Nat) : P (Option Bytes) := fun d =>
  let tk := d.inp.take size
  .ok (some tk) { d with inp := d.inp.drop size, canUnread := !tk.isEmpty, prev := tk.getLastD 0,
                         cost := d.cost + tk.length + 1 }

/-- a failed `Expect…` whose caller goes on: the decoder error is recorded -/
def softFail {α} : P (Option α) := fun d => .ok none { d with errSet := true }

/-- `dec.err != nil` as checked after a failed `String`/`Literal` (the repaired code) -/
def badLiteral : P Bool := fun d => .ok (d.cfg.strictLiteral && d.errSet) d

/-- decoder.go LiteralReader + Literal on the client side: `{` number64 `}` CRLF and the payload.
    A malformed header fails softly, with what was read staying consumed. -/
def literal : P (Option Bytes) := do
  if !(← special 123) then pure none else
  match ← number64 with
  | none => softFail
  | some size =>
    if !(← special 125) then softFail else
    if !(← crlf) then softFail else literalData size

def string : P (Option Bytes) := do
  match ← quoted with
  | some s => pure (some s)
  | none => literal

def expectString : P Bytes := expectOpt string

def nilB : Bytes := [78, 73, 76]

/-- decoder.go ExpectNString: `none` stands for NIL (Go: the empty string) -/
def expectNString : P Bytes := do
  match ← atom with
  | some a => do expect (a == nilB); pure []
  | none => expectString

/-- decoder.go ExpectAString -/
def expectAString : P Bytes := do
  match ← quoted with
  | some s => pure s
  | none =>
    match ← literal with
    | some s => pure s
    | none => if ← badLiteral then fail else expectAtom

def expectNIL : P Unit := do
  let a ← expectAtom
  expect (a == nilB)

/-- entering one level of nesting (decoder.go List / EnterNested): `depth` is the current
    `listDepth`; the result is the new one, or an error at the limit -/
def enter (depth : Nat) : P Nat := fun d =>
  let d' := { d with maxDepth := max d.maxDepth (depth + 1) }
  if depth + 1 ≥ maxListDepth then .err d' else .ok (depth + 1) d'

/-- decoder.go List: the loop after the opening parenthesis was seen and the list is not empty -/
def listLoop (f : P Unit) : Nat → P Unit
  | 0 => outOfFuel
  | fuel + 1 => do
    f
    if ← special 41 then pure ()
    else do expectSP; listLoop f fuel

/-- decoder.go List: `false` when there is no list here -/
def list (fuel depth : Nat) (f : Nat → P Unit) : P Bool := do
  if !(← special 40) then pure false
  else if ← special 41 then pure true
  else do
    let dp ← enter depth
    listLoop (f dp) fuel
    pure true

def expectList (fuel depth : Nat) (f : Nat → P Unit) : P Unit := do
  expect (← list fuel depth f)

/-- decoder.go ExpectNList -/
def expectNList (fuel depth : Nat) (f : Nat → P Unit) : P Unit := do
  match ← atom with
  | some a => expect (a == nilB)
  | none => expectList fuel depth f

/-- decoder.go DiscardValue -/
def discardValue : Nat → Nat → P Unit
  | 0, _ => outOfFuel
  | fuel + 1, depth => do
    match ← string with
    | some _ => pure ()
    | none =>
      if ← badLiteral then fail else
      if ← list fuel depth (fun dp => discardValue fuel dp) then pure ()
      else
        match ← atom with
        | some _ => pure ()
        | none => fail

/-- decoder.go ExpectNumSet: `$` is the SEARCHRES marker (numset.go: `Dynamic()` is true for it);
    the flag says whether the result is dynamic -/
def expectNumSet : P (Bool × NumSet.Set) := do
  if ← special 36 then pure (true, [])
  else
    match ← func isNumSetChar with
    | none => fail
    | some s =>
      match NumSet.parseSet (s.map fun b => Char.ofNat b.toNat) with
      | none => fail
      | some set => pure (NumSet.dynamic set, set)

/-! ### SEARCH / ESEARCH / SORT / THREAD -/

def modseqB : Bytes := [77, 79, 68, 83, 69, 81]

def addToAll (cs : CS) (num : Nat) : CS :=
  match cs.sAll with
  | some (u, s) => { cs with sAll := some (u, NumSet.addNum s num) }
  | none => cs

/-- `findPendingCmdByType[*SearchCommand]` etc.: the one command of the model is still pending
    and of that type -/
def pendingIs (cs : CS) (p : Kind → Bool) : Bool := cs.pending && p cs.kind

/-- search.go handleSearch, the loop `for c.dec.SP()` -/
def searchLoop (rz : Bool) : Nat → P Unit
  | 0 => outOfFuel
  | fuel + 1 => do
    if !(← sp) then pure () else
    if ← special 40 then do
      let name ← expectAtom
      expectSP
      match upper? name with
      | none => unmodelled
      | some u =>
        if u != modseqB then fail else do
        let m ← expectModSeq
        expectSpecial 41
        modifyCS fun cs => if pendingIs cs isSearch then { cs with sModSeq := m } else cs
    else do
      let num ← expectNumber
      if rz && num == 0 then fail else do
      modifyCS fun cs => if pendingIs cs isSearch then addToAll cs num else cs
      searchLoop rz fuel

structure ESData where
  uid : Bool := false
  all : Option (Bool × NumSet.Set) := none
  min : Nat := 0
  max : Nat := 0
  count : Nat := 0
  modSeq : Nat := 0

def strB (s : String) : Bytes := s.toUTF8.toList

/-- search.go readESearchResponse, the loop over search-return-data -/
def esearchLoop (depth : Nat) : Nat → Bytes → ESData → P ESData
  | 0, _, _ => outOfFuel
  | fuel + 1, name, data => do
    expectSP
    match upper? name with
    | none => unmodelled
    | some u =>
      let data ← (
        if u == strB "MIN" then do let n ← expectNumber; pure { data with min := n }
        else if u == strB "MAX" then do let n ← expectNumber; pure { data with max := n }
        else if u == strB "ALL" then do
          let (dyn, set) ← expectNumSet
          if dyn then fail else
          pure { data with all := some (data.uid, set) }
        else if u == strB "COUNT" then do let n ← expectNumber; pure { data with count := n }
        else if u == modseqB then do let n ← expectModSeq; pure { data with modSeq := n }
        else do discardValue fuel depth; pure data : P ESData)
      if !(← sp) then pure data else do
      let name ← expectAtom
      esearchLoop depth fuel name data

/-- search.go readESearchResponse -/
def readESearch (fuel : Nat) : P (Bytes × ESData) := do
  let tag ← (do
    if ← special 40 then
      let corr ← expectAtom
      expectSP
      let t ← expectAString
      expectSpecial 41
      if corr != strB "TAG" then fail else pure t
    else pure [] : P Bytes)
  if !(← sp) then pure (tag, {}) else do
  let name ← expectAtom
  let uid := name == strB "UID"
  if uid then
    if !(← sp) then pure (tag, { uid := true }) else do
    let name ← expectAtom
    let d ← esearchLoop 0 fuel name { uid := true }
    pure (tag, d)
  else do
    let d ← esearchLoop 0 fuel name {}
    pure (tag, d)

/-- search.go handleESearch -/
def handleESearch (fuel : Nat) : P Unit := do
  expectSP
  let (tag, d) ← readESearch fuel
  modifyCS fun cs =>
    if pendingIs cs isSearch && (tag.isEmpty || tag == cs.tag) then
      { cs with sAll := d.all, sUID := d.uid, sMin := d.min, sMax := d.max, sCount := d.count, sModSeq := d.modSeq }
    else cs

/-- sort.go handleSort -/
def sortLoop (rz : Bool) : Nat → P Unit
  | 0 => outOfFuel
  | fuel + 1 => do
    if !(← sp) then pure () else do
    let num ← expectNumber
    if rz && num == 0 then fail else do
    modifyCS fun cs => if pendingIs cs (· == .sort) then { cs with nums := cs.nums ++ [num], delivered := cs.delivered ++ [num] } else cs
    sortLoop rz fuel

/-- what readThreadList builds: rendering, the numbers in it, its depth -/
structure TD where
  out : String := ""
  chain : Nat := 0        -- numbers in this thread's own chain so far
  hasSub : Bool := false
  nums : List Nat := []
  depth : Nat := 1

/-- thread.go readThreadList: one element of the list -/
def threadItem (rz : Bool) (sub : P TD) (t : TD) : P TD := do
  let tryNum ← (if !t.hasSub then number else pure none : P (Option Nat))
  match tryNum with
  | some n =>
    if rz && n == 0 then fail else
    pure { t with out := t.out ++ (if t.chain > 0 then " " else "") ++ toString n, chain := t.chain + 1, nums := t.nums ++ [n] }
  | none => do
    let s ← sub
    pure { t with out := t.out ++ s.out, hasSub := true, nums := t.nums ++ s.nums, depth := max t.depth (s.depth + 1) }

/-- thread.go readThreadList (ExpectList with the element reader inlined: the loop threads the
    thread being built, so List's loop is written out here) -/
def threadList (rz : Bool) : Nat → Nat → P TD
  | 0, _ => outOfFuel
  | fuel + 1, depth => do
    if !(← special 40) then fail
    else if ← special 41 then pure { out := "()" }
    else do
      let dp ← enter depth
      let t ← threadLoop fuel dp {}
      pure { t with out := "(" ++ t.out ++ ")" }
where
  threadLoop : Nat → Nat → TD → P TD
  | 0, _, _ => outOfFuel
  | fuel + 1, dp, t => do
    let t ← threadItem rz (threadList rz fuel dp) t
    if ← special 41 then pure t
    else do expectSP; threadLoop fuel dp t

/-- thread.go handleThread -/
def threadsLoop (rz : Bool) : Nat → P Unit
  | 0 => outOfFuel
  | fuel + 1 => do
    if !(← sp) then pure () else do
    let t ← threadList rz fuel 0
    modifyCS fun cs => if pendingIs cs (· == .thread) then
      { cs with threads := cs.threads ++ t.out, delivered := cs.delivered ++ t.nums, deliveredDepth := max cs.deliveredDepth t.depth } else cs
    threadsLoop rz fuel

/-! ### FETCH -/

/-- internal.ExpectFlag -/
def expectFlag : P Unit := do
  let sys ← special 92
  if sys then
    if ← special 42 then pure () else do let _ ← expectAtom; pure ()
  else do let _ ← expectAtom; pure ()

/-- fetch.go readAddress -/
def readAddress : P Unit := do
  expectSpecial 40
  let _ ← expectNString; expectSP
  let _ ← expectNString; expectSP
  let _ ← expectNString; expectSP
  let _ ← expectNString
  expectSpecial 41

def addrLists (fuel depth : Nat) : Nat → P Unit
  | 0 => pure ()
  | n + 1 => do
    expectNList fuel depth (fun _ => readAddress)
    expectSP
    addrLists fuel depth n

/-- fetch.go readEnvelope -/
def readEnvelope (fuel depth : Nat) : P Unit := do
  expectSpecial 40
  let _ ← expectNString; expectSP
  let _ ← expectNString; expectSP
  addrLists fuel depth 6
  let _ ← expectNString; expectSP
  let _ ← expectNString
  expectSpecial 41

/-- fetch.go readBodyFldParam: the loop of ExpectNList threads the pending key -/
def paramLoop : Nat → Bytes → P Bytes
  | 0, _ => outOfFuel
  | fuel + 1, k => do
    let s ← expectString
    let k' := if k.isEmpty then s else []
    if ← special 41 then pure k'
    else do expectSP; paramLoop fuel k'

def readBodyFldParam (fuel depth : Nat) : P Unit := do
  match ← atom with
  | some a => expect (a == nilB)
  | none =>
    if !(← special 40) then fail
    else if ← special 41 then pure ()
    else do
      let _ ← enter depth
      let k ← paramLoop fuel []
      if !k.isEmpty then fail else pure ()

/-- fetch.go readBodyFldDsp -/
def readBodyFldDsp (fuel depth : Nat) : P Unit := do
  if !(← special 40) then expectNIL
  else do
    let _ ← expectString
    expectSP
    readBodyFldParam fuel depth
    expectSpecial 41

/-- fetch.go readBodyFldLang -/
def readBodyFldLang (fuel depth : Nat) : P Unit := do
  if ← list fuel depth (fun _ => do let _ ← expectString; pure ()) then pure ()
  else do let _ ← expectNString; pure ()

/-- the tail shared by readBodyExt1part and readBodyExtMpart: dsp, lang, location -/
def extTail (fuel depth : Nat) : P Unit := do
  if !(← sp) then pure () else do
  readBodyFldDsp fuel depth
  if !(← sp) then pure () else do
  readBodyFldLang fuel depth
  if !(← sp) then pure () else do
  let _ ← expectNString
  pure ()

/-- decoder.go ExpectBodyFldOctets -/
def expectBodyFldOctets : P Nat := do
  if ← acceptByte 45 then do expect (← acceptByte 49); pure 0
  else expectNumber

/-- ASCII case-insensitive comparison; `none` when non-ASCII bytes make Go's `EqualFold` differ -/
def eqFold? (a : Bytes) (lit : String) : Option Bool :=
  (upper? a).map fun u => some u == upper? (strB lit)

structure BodyOut where
  out : String
  depth : Nat

def trailingValues : Nat → Nat → P Unit
  | 0, _ => outOfFuel
  | fuel + 1, depth => do
    if !(← sp) then pure () else do
    discardValue fuel depth
    trailingValues fuel depth

/-- ghost: the recursion is `n` levels deep (only needed where Go recurses without counting) -/
def noteNest (n : Nat) : P Unit := fun d => .ok () { d with maxDepth := max d.maxDepth n }

/-- fetch.go readBody / readBodyType1part / readBodyTypeMpart.  `depth` is the decoder's
    listDepth; with `guard` the body levels count against the limit (the repaired code).
    Without it, listDepth stays what it is while the recursion deepens: `nest` counts those
    uncounted levels for the ghost `maxDepth`. -/
def readBody (guard : Bool) : Nat → Nat → Nat → P BodyOut
  | 0, _, _ => outOfFuel
  | fuel + 1, depth, nest => do
    let (dp, nest) ← (
      if guard then do let dp ← enter depth; pure (dp, nest)
      else do noteNest (depth + nest + 1); pure (depth, nest + 1) : P (Nat × Nat))
    expectSpecial 40
    let b ← (do
      match ← string with
      | some typ => body1part fuel dp nest typ
      | none =>
        if ← badLiteral then fail else
        let (outs, dpt) ← mpartLoop fuel dp nest "" 0
        pure { out := outs, depth := dpt } : P BodyOut)
    trailingValues fuel dp
    expectSpecial 41
    pure b
where
  /-- readBodyType1part -/
  body1part : Nat → Nat → Nat → Bytes → P BodyOut
  | 0, _, _, _ => outOfFuel
  | fuel + 1, dp, nest, typ => do
    expectSP
    let sub ← expectString
    expectSP
    readBodyFldParam fuel dp
    expectSP
    let id ← expectNString; expectSP
    let _ ← expectNString; expectSP
    let enc ← expectNString; expectSP
    let size ← expectBodyFldOctets
    let enc := if enc.isEmpty then strB "7BIT" else enc
    let head := s!"s[{hexEnc typ}/{hexEnc sub}/{hexEnc enc}/{hexEnc id}/{size}"
    if !(← sp) then pure { out := head ++ "]", depth := 1 } else
    match eqFold? typ "message", eqFold? sub "rfc822", eqFold? sub "global", eqFold? typ "text" with
    | some isMsg, some isRfc, some isGlobal, some isText =>
      if isMsg && (isRfc || isGlobal) then do
        readEnvelope fuel dp
        expectSP
        let inner ← readBody guard fuel dp nest
        expectSP
        let lines ← expectNumber64
        let ext ← sp
        if ext then do let _ ← expectNString; extTail fuel dp
        pure { out := head ++ s!"/r{inner.out}/{lines}" ++ (if ext then "/x" else "") ++ "]", depth := inner.depth + 1 }
      else if isText then do
        let lines ← expectNumber64
        let ext ← sp
        if ext then do let _ ← expectNString; extTail fuel dp
        pure { out := head ++ s!"/t{lines}" ++ (if ext then "/x" else "") ++ "]", depth := 1 }
      else do
        let _ ← expectNString; extTail fuel dp
        pure { out := head ++ "/x]", depth := 1 }
    | _, _, _, _ => unmodelled
  /-- readBodyTypeMpart: children, then the subtype, then the extension data -/
  mpartLoop : Nat → Nat → Nat → String → Nat → P (String × Nat)
  | 0, _, _, _, _ => outOfFuel
  | fuel + 1, dp, nest, acc, dmax => do
    let child ← readBody guard fuel dp nest
    let acc := acc ++ child.out
    let dmax := max dmax child.depth
    let more ← (do
      if ← sp then
        match ← string with
        | some sub => pure (some sub)
        | none => pure none
      else pure none : P (Option Bytes))
    match more with
    | none => if ← badLiteral then fail else mpartLoop fuel dp nest acc dmax
    | some sub => do
      let ext ← sp
      if ext then do readBodyFldParam fuel dp; extTail fuel dp
      pure ("m[" ++ hexEnc sub ++ (if ext then "/x" else "") ++ ":" ++ acc ++ "]", dmax + 1)

/-- fetch.go handleMsg: decide once who gets the message (recvSeqNum / recvUID) -/
def handleMsg (seq : Nat) (cs : CS) : CS :=
  let m := cs.cur
  if m.handled.isSome then cs else
  let take (n : Nat) (set : NumSet.Set) : CS :=
    if n != 0 && NumSet.contains set n && !NumSet.contains cs.recv n then
      { cs with recv := NumSet.addNum cs.recv n, cur := { m with handled := some true } }
    else { cs with cur := { m with handled := some false } }
  match cs.kind, cs.pending with
  | .fetch true set, true => take m.uid set
  | .fetch false set, true => take seq set
  | _, _ => { cs with cur := { m with handled := some false } }

/-- `defer handleMsg()` + what the consumer of the message ends up holding -/
def deliverMsg (seq : Nat) (cs : CS) : CS :=
  let cs := handleMsg seq cs
  let m := cs.cur
  let r := m.render seq
  let cs := { cs with delivered := cs.delivered ++ [seq], deliveredDepth := max cs.deliveredDepth m.bodyDepth }
  if m.handled == some true then { cs with msgs := cs.msgs ++ [r] } else { cs with uni := cs.uni ++ ["f" ++ r] }

def flagLoop : Nat → Nat → P Nat
  | 0, _ => outOfFuel
  | fuel + 1, n => do
    expectFlag
    if ← special 41 then pure (n + 1)
    else do expectSP; flagLoop fuel (n + 1)

def setCur (f : Msg → Msg) : P Unit := modifyCS fun cs => { cs with cur := f cs.cur }

/-- fetch.go handleFetch, `case "BODYSTRUCTURE"` (and BODY without a section) -/
def fetchBodyAtt (fuel dp : Nat) (guard : Bool) : P Unit := do
  expectSP
  let b ← readBody guard fuel dp 0
  setCur fun m => { m with body := some b.out, bodyDepth := b.depth }

/-- `BODY[` starts a body section (a literal follows): outside the modelled fragment -/
def noSection (name : Bytes) : P Unit := do
  if name == strB "BODY" then
    if ← special 91 then unmodelled

/-- fetch.go handleFetch, the `switch attName`: the data of one msg-att -/
def fetchAttData (fuel dp : Nat) (guard : Bool) (name : Bytes) : P Unit :=
  if name == strB "FLAGS" then do
    expectSP
    -- internal.ExpectFlagList, counting the flags
    if !(← special 40) then fail
    else if ← special 41 then setCur fun m => { m with flags := 0 }
    else do
      let _ ← enter dp
      let n ← flagLoop fuel 0
      setCur fun m => { m with flags := n }
  else if name == strB "ENVELOPE" then do
    expectSP; readEnvelope fuel dp; setCur fun m => { m with env := true }
  else if name == strB "RFC822.SIZE" then do
    expectSP; let n ← expectNumber64; setCur fun m => { m with size := n }
  else if name == strB "UID" then do
    expectSP; let n ← expectNumber; setCur fun m => { m with uid := n }
  else if name == strB "BODY" || name == strB "BODYSTRUCTURE" then do
    noSection name
    fetchBodyAtt fuel dp guard
  else if name == strB "BINARY" then do
    if ← special 91 then unmodelled else fail
  else if name == strB "MODSEQ" then do
    expectSP; expectSpecial 40; let n ← expectModSeq; expectSpecial 41; setCur fun m => { m with modSeq := n }
  else if name == strB "INTERNALDATE" || name == strB "BINARY.SIZE" then unmodelled
  else fail

/-- `numAtts++`; beyond the capacity of the items channel the message is handed over early -/
def bumpAtts (seq : Nat) : P Unit :=
  modifyCS fun cs =>
    let cs := { cs with cur := { cs.cur with numAtts := cs.cur.numAtts + 1 } }
    if cs.cur.numAtts > 32 then handleMsg seq cs else cs

/-- fetch.go handleFetch: one msg-att -/
def fetchAtt (fuel dp : Nat) (guard : Bool) (seq : Nat) : P Unit := do
  match ← func isMsgAttNameChar with
  | none => fail
  | some nameRaw =>
    match upper? nameRaw with
    | none => unmodelled
    | some name => do
      fetchAttData fuel dp guard name
      bumpAtts seq

/-- fetch.go handleFetch; the message read so far is handed over even when the response fails
    to parse half-way (`defer handleMsg()`) -/
def handleFetch (fuel : Nat) (cfg : Cfg) (seq : Nat) : P Unit := do
  if cfg.rejectZero && seq == 0 then fail else do
  modifyCS fun cs => { cs with cur := {} }
  finally' (expectList fuel 0 (fun dp => fetchAtt fuel dp cfg.bodyDepth seq)) (deliverMsg seq)

/-! ### response codes, tagged and untagged responses -/

/-- capability.go readCapabilities -/
def capsLoop : Nat → P Unit
  | 0 => outOfFuel
  | fuel + 1 => do
    if !(← sp) then pure () else do
    let _ ← expectAtom
    capsLoop fuel

/-- copy.go readRespCodeCopyUID -/
def readCopyUID : P (Nat × NumSet.Set × NumSet.Set) := do
  let v ← expectNumber
  expectSP
  let (d1, src) ← expectNumSet
  expectSP
  let (d2, dst) ← expectNumSet
  if d1 || d2 then fail else pure (v, src, dst)

/-- the data of a response code; `tagged` selects the codes client.go handles in
    readResponseTagged (the command it completes has then already left the pending list) -/
def respCodeData (fuel : Nat) (cfg : Cfg) (tagged : Bool) (code : Bytes) : P Unit :=
  if code == strB "CAPABILITY" then capsLoop fuel
  else if tagged && code == strB "APPENDUID" then do
    expectSP; let v ← expectNumber; expectSP; let u ← expectNumber
    if cfg.rejectZero && u == 0 then fail else
    modifyCS fun cs => if cs.kind == .append then { cs with uidValidity := v, appendUID := u } else cs
  else if code == strB "COPYUID" then do
    expectSP
    let (v, s, t) ← readCopyUID
    modifyCS fun cs =>
      if (tagged && cs.kind == .copy) || (!tagged && cs.kind == .move && cs.pending) then
        { cs with uidValidity := v, src := some s, dst := some t } else cs
  else if !tagged && code == strB "PERMANENTFLAGS" then unmodelled
  else if !tagged && code == strB "UIDNEXT" then do expectSP; let _ ← expectNumber; pure ()
  else if !tagged && code == strB "UIDVALIDITY" then do expectSP; let _ ← expectNumber; pure ()
  else if !tagged && code == strB "HIGHESTMODSEQ" then do expectSP; let _ ← expectModSeq; pure ()
  else if !tagged && code == strB "NOMODSEQ" then pure ()
  else do
    -- [SP 1*<any TEXT-CHAR except "]">]
    if ← sp then discardUntilByte 93 else pure ()

/-- `[code …]` of a status response -/
def respCode (fuel : Nat) (cfg : Cfg) (tagged : Bool) : P Unit := do
  let code ← expectAtom
  respCodeData fuel cfg tagged code
  expectSpecial 93

/-- the `[code] text` part of a status response -/
def respText (fuel : Nat) (cfg : Cfg) (tagged : Bool) : P Unit := do
  let hasSP ← sp
  let hasSP ← (
    if hasSP then do
      if ← special 91 then do
        respCode fuel cfg tagged
        sp
      else pure true
    else pure false : P Bool)
  if hasSP then do
    match ← text with
    | some _ => pure ()
    | none => fail

/-- client.go readResponseTagged.  The command leaves the pending list first; any error
    afterwards completes it with that error. -/
def readTagged (fuel : Nat) (cfg : Cfg) (tag typ : Bytes) : P Unit := do
  let cs ← getCS
  if !(cs.pending && tag == cs.tag) then fail else do
  modifyCS fun cs => { cs with pending := false, cmdClass := "err" }
  respText fuel cfg true
  if !(typ == strB "OK" || typ == strB "NO" || typ == strB "BAD") then fail else do
  -- the command is reported as completed only once the whole line has been received
  expectCRLF
  modifyCS fun cs => { cs with cmdClass := if typ == strB "OK" then "ok" else if typ == strB "NO" then "no" else "bad" }

/-- client.go readResponseData -/
def readData (fuel : Nat) (cfg : Cfg) (typ0 : Bytes) : P Unit := do
  -- number SP ("EXISTS" / "RECENT" / "FETCH" / "EXPUNGE")
  let (num, typ) ← (
    match typ0.head? with
    | some c =>
      if isDigitB c then
        if typ0.all isDigitB && valOfB typ0 < 4294967296 then do
          expectSP; let t ← expectAtom; pure (valOfB typ0, t)
        else fail
      else pure (0, typ0)
    | none => fail : P (Nat × Bytes))
  if typ == strB "OK" || typ == strB "PREAUTH" || typ == strB "NO" || typ == strB "BAD" || typ == strB "BYE" then
    respText fuel cfg false
  else if typ == strB "CAPABILITY" || typ == strB "ENABLED" then capsLoop fuel
  else if typ == strB "EXISTS" || typ == strB "RECENT" then pure ()
  else if typ == strB "EXPUNGE" then
    if cfg.rejectZero && num == 0 then fail else
    modifyCS fun cs =>
      let cs := { cs with delivered := cs.delivered ++ [num] }
      if pendingIs cs (· == .expunge) then { cs with nums := cs.nums ++ [num] }
      else { cs with uni := cs.uni ++ [s!"x{num}"] }
  else if typ == strB "FETCH" then do expectSP; handleFetch fuel cfg num
  else if typ == strB "SEARCH" then searchLoop cfg.rejectZero fuel
  else if typ == strB "ESEARCH" then handleESearch fuel
  else if typ == strB "SORT" then sortLoop cfg.rejectZero fuel
  else if typ == strB "THREAD" then threadsLoop cfg.rejectZero fuel
  else if typ == strB "NAMESPACE" || typ == strB "FLAGS" || typ == strB "LIST" || typ == strB "STATUS" ||
      typ == strB "METADATA" || typ == strB "QUOTA" || typ == strB "QUOTAROOT" then unmodelled
  else fail

/-- client.go readResponse -/
def readResponse (fuel : Nat) (cfg : Cfg) : P Unit := do
  if ← special 43 then fail   -- continuation request: nothing is waiting for one
  let tag ← (do
    if ← special 42 then pure [] else expectAtom : P Bytes)
  expectSP
  let typ ← expectAtom
  -- the CRLF of a tagged response is consumed by readResponseTagged
  if !tag.isEmpty then readTagged fuel cfg tag typ else do readData fuel cfg typ; expectCRLF

inductive DecClass where | none | err | panic | unmod | nofuel
deriving DecidableEq, BEq

/-- client.go read: responses until the input ends or one fails -/
def readLoop (fuel : Nat) (cfg : Cfg) : Nat → Dec → (DecClass × Dec)
  | 0, d => (.nofuel, d)
  | n + 1, d =>
    -- `c.dec.EOF()`: one ReadByte (and UnreadByte)
    if d.inp.isEmpty then (.none, { d with cost := d.cost + 1 })
    else
      match readResponse fuel cfg { d with cost := d.cost + 1 } with
      | .ok () d' => readLoop fuel cfg n d'
      | .err e => (.err, e)
      | .panic => (.panic, d)
      | .unmod => (.unmod, d)
      | .nofuel => (.nofuel, d)

/-! ### the observation: what the caller holds afterwards -/

def showRanges (s : NumSet.Set) : String := joinWith "," (s.map fun r => s!"{r.start}-{r.stop}")

/-- `cmd` is how the command ended for the caller -/
def CS.data (cs : CS) (cmd : String) : String :=
  match cs.kind with
  | .search _ =>
    let all := match cs.sAll with
      | none => "~"
      | some (u, s) => (if u then "u" else "q") ++ showRanges s
    s!"S:{boolStr cs.sUID}:{all}:{cs.sMin}:{cs.sMax}:{cs.sCount}:{cs.sModSeq}"
  | .sort => "N:" ++ joinWith "," (cs.nums.map toString)
  | .thread => "T:" ++ cs.threads
  | .fetch _ _ => "F:" ++ joinWith "," cs.msgs
  | .copy =>
    -- CopyData.SourceUIDs / DestUIDs are UIDSet values (nil when absent)
    let sh (o : Option NumSet.Set) := "u" ++ showRanges (o.getD [])
    s!"C:{cs.uidValidity}:{sh cs.src}:{sh cs.dst}"
  | .move =>
    -- MoveCommand.Wait returns nil data unless the command succeeded; its sets are NumSet interfaces
    if cmd != "ok" then "C:nil" else
    let sh (o : Option NumSet.Set) := match o with | none => "~" | some s => "u" ++ showRanges s
    s!"C:{cs.uidValidity}:{sh cs.src}:{sh cs.dst}"
  | .append => s!"A:{cs.uidValidity}:{cs.appendUID}"
  | .expunge => "X:" ++ joinWith "," (cs.nums.map toString)
  | .other => "-"

/-- insertion sort on strings (the unilateral handlers run in goroutines: order is not observable) -/
def insertStr (s : String) : List String → List String
  | [] => [s]
  | t :: r => if s ≤ t then s :: t :: r else t :: insertStr s r

def sortStrs (l : List String) : List String := l.foldr insertStr []

structure Obs where
  cmd : String
  dec : DecClass
  data : String
  uni : String
  cost : Nat
  maxDepth : Nat
  delivered : List Nat
  deliveredDepth : Nat
  /-- the SEARCH result set, if any was handed over -/
  all : Option NumSet.Set
  /-- the COPYUID sets, if any were handed over -/
  src : Option NumSet.Set
  dst : Option NumSet.Set

def initCS (tag : Bytes) (kind : Kind) : CS :=
  { tag := tag, kind := kind,
    sAll := match kind with | .search u => some (u, []) | _ => none }

/-- the whole client: stream in, observation out -/
def clientParse (cfg : Cfg) (tag : Bytes) (kind : Kind) (inp : Bytes) : Obs :=
  let fuel := 2 * inp.length + 8
  let (dc, d) := readLoop fuel cfg (inp.length + 2) { inp := inp, cs := initCS tag kind, cfg := cfg }
  let cs := d.cs
  -- closeWithError completes whatever is still pending with an error
  let cmd := if cs.pending then "err" else cs.cmdClass
  let uni := sortStrs cs.uni
  { cmd := cmd, dec := dc, data := cs.data cmd, uni := if uni.isEmpty then "-" else joinWith "," uni,
    cost := d.cost, maxDepth := d.maxDepth, delivered := cs.delivered, deliveredDepth := cs.deliveredDepth,
    all := cs.sAll.map (·.2), src := cs.src, dst := cs.dst }

namespace Legacy
/-- before the repairs: readBody outside the depth limit, 0 accepted as a message number -/
def cfg : Cfg := { rejectZero := false, bodyDepth := false, strictLiteral := false }
def clientParse := ClientParse.clientParse cfg
end Legacy

/-! ### accessors of the delivered data (search.go AllSeqNums / AllUIDs, numset.go Nums) -/

inductive Acc (α : Type) where
  | value : α → Acc α
  | panic : Acc α

def Acc.isPanic {α} : Acc α → Bool
  | .panic => true
  | .value _ => false

/-- search.go SearchData.AllSeqNums / AllUIDs: panics on a dynamic set -/
def allNums (s : NumSet.Set) : Acc (List Nat) :=
  match NumSet.nums s with
  | some l => .value l
  | none => .panic

end GoImap.ClientParse
