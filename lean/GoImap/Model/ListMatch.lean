/-
  M4 — mirror of /repo/imapserver/list.go `MatchList` / `matchList`.
  Bytes are `Nat`s. `matchList` is the byte-level normal form of the Go function: the literal
  chunk before the first wildcard is compared byte by byte (HasPrefix/TrimPrefix), the wildcard
  dispatches to `expand`, which is the `for j` loop.
-/
import GoImap.Util
namespace GoImap.ListMatch

abbrev B := Nat

def isWild (c : B) : Bool := c = 42 || c = 37   -- '*' '%'

/-- the `for j` loop of matchList: try every suffix of `name`, stopping (after trying it) at the
    first delimiter when the wildcard is '%'. `k` is "matchList(_, delim, rest)". -/
def expand (delim : Option B) (pct : Bool) (k : List B → Bool) : List B → Bool
  | [] => k []
  | n :: ns =>
    if pct && delim = some n then k (n :: ns)
    else k (n :: ns) || expand delim pct k ns

/-- list.go matchList; `delim = some d` when the delimiter string is the single byte `d`
    (Go compares `string(name[j]) == delim`) -/
def matchList (delim : Option B) : List B → List B → Bool   -- pattern, name
  | [], name => name.isEmpty
  | c :: ps, name =>
    if isWild c then expand delim (c = 37) (matchList delim ps) name
    else match name with
      | [] => false
      | n :: ns => n = c && matchList delim ps ns

def stripPrefix? : List B → List B → Option (List B)   -- prefix, s
  | [], s => some s
  | _ :: _, [] => none
  | p :: ps, x :: xs => if p = x then stripPrefix? ps xs else none

def hasSuffix (s suf : List B) : Bool := (stripPrefix? suf.reverse s.reverse).isSome

/-- list.go MatchList. `delimStr` is the UTF-8 encoding of the delimiter rune ([] when the
    rune is 0), `delimByte` the byte that `string(name[j]) == delim` can be true for. -/
def matchListTop (name : List B) (delimStr : List B) (delimByte : Option B) (reference pattern : List B) : Bool :=
  let stripped := if delimStr.isEmpty then none else stripPrefix? delimStr pattern
  let reference := if stripped.isSome then [] else reference
  let pattern := match stripped with | some p => p | none => pattern
  if reference.isEmpty then matchList delimByte pattern name
  else
    let reference := if !delimStr.isEmpty && !hasSuffix reference delimStr then reference ++ delimStr else reference
    match stripPrefix? reference name with
    | none => false
    | some rest => matchList delimByte pattern rest

/-! ### repaired matcher (fix: '%' stops where the delimiter STRING starts)

  As shipped the loop tested `string(name[j]) == delim`, which converts one BYTE to a rune: for a
  delimiter above U+00FF the test is never true ('%' crossed delimiters), for U+0080..U+00FF it is
  true at any byte equal to the rune's number (a continuation byte of some other character).  The
  definitions above (`expand`, `matchList`, `matchListTop` with `delimByte`) mirror that code and are
  kept for the single-byte theorems and the Legacy counterexamples; the definitions below mirror the
  repaired code, `delim != "" && strings.HasPrefix(name[j:], delim)`. -/

/-- strings.HasPrefix(s, p) -/
def hasPrefix (p s : List B) : Bool := (stripPrefix? p s).isSome

/-- the `for j` loop of the repaired matchList -/
def expandS (delim : List B) (pct : Bool) (k : List B → Bool) : List B → Bool
  | [] => k []
  | n :: ns =>
    if pct && !delim.isEmpty && hasPrefix delim (n :: ns) then k (n :: ns)
    else k (n :: ns) || expandS delim pct k ns

/-- repaired list.go matchList; `delim` is the delimiter string ([] when there is none) -/
def matchListS (delim : List B) : List B → List B → Bool   -- pattern, name
  | [], name => name.isEmpty
  | c :: ps, name =>
    if isWild c then expandS delim (c = 37) (matchListS delim ps) name
    else match name with
      | [] => false
      | n :: ns => n = c && matchListS delim ps ns

/-- repaired list.go MatchList -/
def matchListTopS (name : List B) (delimStr : List B) (reference pattern : List B) : Bool :=
  let stripped := if delimStr.isEmpty then none else stripPrefix? delimStr pattern
  let reference := if stripped.isSome then [] else reference
  let pattern := match stripped with | some p => p | none => pattern
  if reference.isEmpty then matchListS delimStr pattern name
  else
    let reference := if !delimStr.isEmpty && !hasSuffix reference delimStr then reference ++ delimStr else reference
    match stripPrefix? reference name with
    | none => false
    | some rest => matchListS delimStr pattern rest

end GoImap.ListMatch
