/-
  M12 (commands) — mirror of the `imapclient` command writers and of the `imapserver` command
  readers, at the level of *items*: a command on the wire is a list of raw bytes (`Item.b`)
  interleaved with IMAP strings (`Item.s v`: whatever `Encoder.String` chose, quoted or literal —
  that encoding and its decoding by `Decoder.Quoted/Literal` is property C01), the APPEND literal
  (`Item.lit`), and the two date tokens (`Item.date`, `Item.datetime`: `time.Format`/`time.Parse`
  for the two IMAP layouts are below the modelled interface).  Everything else — atoms, spaces,
  parentheses, brackets, numbers, number sets, flags, modified UTF-7 mailbox names, the order of
  the fields — is byte exact and is lexed again by the reader mirror.

    client:  imapclient/{client,select,create,list,status,append,copy,move,store,expunge,fetch,search}.go
    server:  imapserver/{conn,login,select,create,list,status,append,copy,move,store,expunge,fetch,search}.go
             internal/internal.go (ExpectFlag, canonicalFlag), internal/imapwire (Decoder.SP/List/…)

  Mailbox names are lists of Unicode scalar values (the UTF-8 layer is below the interface, as in
  `GoImap.Utf7`); all other strings are byte lists.  Not modelled (the reader answers `bad` as the
  server does, the writer mirrors what the client sends): CONDSTORE (MODSEQ, CHANGEDSINCE,
  UNCHANGEDSINCE), SORT/THREAD/QUOTA/METADATA/ID/NAMESPACE.  `Err.unmodelled` marks inputs outside
  the model: strings longer than the server's 4096-byte limit for buffered literals (their fate
  is command framing, C04), negative part numbers and offsets.
-/
import GoImap.Model.NumSet
import GoImap.Model.Utf7
namespace GoImap.CmdGrammar

abbrev Str := List Nat

def str (x : String) : Str := x.toList.map Char.toNat

def upperByte (c : Nat) : Nat := if 97 ≤ c ∧ c ≤ 122 then c - 32 else c
def lowerByte (c : Nat) : Nat := if 65 ≤ c ∧ c ≤ 90 then c + 32 else c
/-- strings.ToUpper / ToLower on ASCII (non-ASCII bytes are left alone) -/
def upper (s : Str) : Str := s.map upperByte
def lower (s : Str) : Str := s.map lowerByte

/-! ## values -/

/-- a number set as the caller or the session sees it -/
inductive NSet where
  | searchRes
  | set (rs : NumSet.Set)
deriving DecidableEq, Repr

/-- imap.SeqSet.String / UIDSet.String -/
def NSet.text : NSet → Str
  | .searchRes => [36]
  | .set rs => (NumSet.toChars rs).map Char.toNat

structure StatusOpts where
  messages : Bool := false
  uidNext : Bool := false
  uidValidity : Bool := false
  unseen : Bool := false
  deleted : Bool := false
  size : Bool := false
  appendLimit : Bool := false
  deletedStorage : Bool := false
  highestModSeq : Bool := false
deriving DecidableEq, Repr

structure ListOpts where
  selSubscribed : Bool := false
  selRemote : Bool := false
  selRecursive : Bool := false
  selSpecialUse : Bool := false
  retSubscribed : Bool := false
  retChildren : Bool := false
  retSpecialUse : Bool := false
  retStatus : Option StatusOpts := none
deriving DecidableEq, Repr

structure Partial where
  offset : Int
  size : Int
deriving DecidableEq, Repr

inductive Spec where
  | none | header | mime | text
deriving DecidableEq, Repr

structure BodySec where
  spec : Spec := .none
  part : List Int := []
  fields : List Str := []
  fieldsNot : List Str := []
  slice : Option Partial := none
  peek : Bool := false
deriving DecidableEq, Repr

structure BinSec where
  part : List Int := []
  slice : Option Partial := none
  peek : Bool := false
deriving DecidableEq, Repr

structure FetchOpts where
  /-- `none` = no body structure, `some ext` = BODY (false) / BODYSTRUCTURE (true) -/
  bodyStructure : Option Bool := none
  envelope : Bool := false
  flags : Bool := false
  internalDate : Bool := false
  size : Bool := false
  uid : Bool := false
  modSeq : Bool := false
  sections : List BodySec := []
  binary : List BinSec := []
  binarySize : List (List Int) := []
deriving DecidableEq, Repr

structure SearchOpts where
  min : Bool := false
  max : Bool := false
  all : Bool := false
  count : Bool := false
  save : Bool := false
deriving DecidableEq, Repr

/-- a search date: the calendar day (as seconds of its UTC midnight, counted from Go's zero time;
    0 = unset) and, on the caller side, the instant (the `ON` rule of the client compares instants
    before the repair) -/
structure Date where
  day : Int := 0
  inst : Int := 0
deriving DecidableEq, Repr

structure Flat where
  seqSets : List NSet := []
  uidSets : List NSet := []
  since : Date := {}
  before : Date := {}
  sentSince : Date := {}
  sentBefore : Date := {}
  header : List (Str × Str) := []
  body : List Str := []
  text : List Str := []
  flags : List Str := []
  notFlags : List Str := []
  larger : Int := 0
  smaller : Int := 0
deriving DecidableEq, Repr

mutual
  /-- imap.SearchCriteria -/
  inductive Crit where
    | mk (f : Flat) (nots : CritList) (ors : OrList)
  inductive CritList where
    | nil
    | cons (c : Crit) (t : CritList)
  inductive OrList where
    | nil
    | cons (a b : Crit) (t : OrList)
end

def Crit.flat : Crit → Flat | .mk f _ _ => f
def Crit.nots : Crit → CritList | .mk _ n _ => n
def Crit.ors : Crit → OrList | .mk _ _ o => o
def Crit.empty : Crit := .mk {} .nil .nil

def CritList.snoc : CritList → Crit → CritList
  | .nil, c => .cons c .nil
  | .cons x t, c => .cons x (t.snoc c)

def OrList.snoc : OrList → Crit → Crit → OrList
  | .nil, a, b => .cons a b .nil
  | .cons x y t, a, b => .cons x y (t.snoc a b)

/-- APPEND time: the instant in whole seconds (counted from the Unix epoch) and the zone offset in
    seconds east of UTC -/
structure ATime where
  secs : Int
  off : Int
deriving DecidableEq, Repr

/-- a client API call with its arguments — and equally a call on the server-side session -/
inductive Cmd where
  | login (u p : Str)
  | select (m : List Nat) (readOnly : Bool)
  | create (m : List Nat) (use : List Str)
  | delete (m : List Nat)
  | rename (m n : List Nat)
  | subscribe (m : List Nat)
  | unsubscribe (m : List Nat)
  | list (ref : List Nat) (pats : List (List Nat)) (o : ListOpts)
  | status (m : List Nat) (o : StatusOpts)
  | append (m : List Nat) (flags : List Str) (time : Option ATime) (payload : Str)
  | copy (uid : Bool) (s : NSet) (m : List Nat)
  | move (uid : Bool) (s : NSet) (m : List Nat)
  | store (uid : Bool) (s : NSet) (op : Nat) (silent : Bool) (flags : List Str)
  | expunge (uids : Option NSet)
  | fetch (uid : Bool) (s : NSet) (o : FetchOpts)
  | search (uid : Bool) (c : Crit) (o : Option SearchOpts)
  | unselect

/-! ## configuration -/

/-- `Options.Caps` of the server (what the client sees through `CapSet.Has` is derived) -/
structure Caps where
  rev1 : Bool := true
  rev2 : Bool := false
  litPlus : Bool := false
  move : Bool := false
  uidPlus : Bool := false
  esearch : Bool := false
  searchRes : Bool := false
  listExt : Bool := false
  listStatus : Bool := false
  statusSize : Bool := false
  binary : Bool := false
  createSpecialUse : Bool := false
  ns : Bool := false
deriving DecidableEq, Repr

structure Cfg where
  caps : Caps := {}
  /-- 0 = nothing enabled, 1 = ENABLE UTF8=ACCEPT, 2 = ENABLE IMAP4rev2 -/
  enable : Nat := 0
  /-- a mailbox is selected when the command is issued -/
  presel : Bool := false
deriving DecidableEq, Repr

/-- client.go beginCommand: `c.caps.Has(IMAP4rev2) || c.enabled.Has(UTF8=ACCEPT)` -/
def Cfg.quotedUTF8 (c : Cfg) : Bool := c.caps.rev2 || c.enable = 1
/-- `caps.Has(LITERAL-)`: the server advertises LITERAL- with IMAP4rev1; IMAP4rev2 and LITERAL+ imply it -/
def Cfg.litMinus (c : Cfg) : Bool := c.caps.rev1 || c.caps.rev2 || c.caps.litPlus
def Cfg.litPlus (c : Cfg) : Bool := c.caps.litPlus
def Cfg.hasMove (c : Cfg) : Bool := c.caps.move || c.caps.rev2
def Cfg.hasUidPlus (c : Cfg) : Bool := c.caps.uidPlus || c.caps.rev2
/-- search.go: `CHARSET UTF-8` is written unless IMAP4rev2 is advertised or UTF8=ACCEPT enabled -/
def Cfg.needCharset (c : Cfg) : Bool := !c.caps.rev2 && c.enable ≠ 1

/-! ## items -/

inductive Item where
  | b (c : Nat)
  | s (v : Str)
  | lit (v : Str)
  | date (day : Int)
  | datetime (t : ATime)
deriving DecidableEq, Repr

abbrev Wire := List Item

def atom (s : Str) : Wire := s.map Item.b
def kw (x : String) : Wire := atom (str x)
def sp : Wire := [.b 32]
def crlf : Wire := [.b 13, .b 10]

/-- a piece of a command line: fixed items, or items that the client takes out of a Go map and
    therefore writes in an unspecified order, separated by single spaces -/
inductive Seg where
  | fixed (w : Wire)
  | anyOrder (items : List Wire)

def joinSp : List Wire → Wire
  | [] => []
  | [w] => w
  | w :: ws => w ++ sp ++ joinSp ws

/-- the linearisation that writes map-ordered items in the listed order -/
def Seg.lin : Seg → Wire
  | .fixed w => w
  | .anyOrder items => joinSp items

def linearise (segs : List Seg) : Wire := segs.flatMap Seg.lin

/-- `w` is one of the ways the client may write the segment: map-ordered items in ANY order -/
inductive Seg.Lin : Seg → Wire → Prop where
  | fixed (w : Wire) : Seg.Lin (.fixed w) w
  | anyOrder (items perm : List Wire) (h : perm.Perm items) : Seg.Lin (.anyOrder items) (joinSp perm)

/-- `w` is one of the ways the client may write the segments of a protocol command -/
inductive Lin : List Seg → Wire → Prop where
  | nil : Lin [] []
  | cons (s : Seg) (ss : List Seg) (w ws : Wire) (h : Seg.Lin s w) (t : Lin ss ws) : Lin (s :: ss) (w ++ ws)

/-- one written form for each protocol command of a client call -/
inductive LinAll : List (List Seg) → List Wire → Prop where
  | nil : LinAll [] []
  | cons (segs : List Seg) (rest : List (List Seg)) (w : Wire) (ws : List Wire) (h : Lin segs w) (t : LinAll rest ws) :
      LinAll (segs :: rest) (w :: ws)

/-! ## character classes and flags (decoder.go IsAtomChar, encoder.go isValidFlag) -/

def isControl (ch : Nat) : Bool := ch < 32 || (127 ≤ ch && ch < 160)

def isAtomChar (ch : Nat) : Bool :=
  if ch = 40 || ch = 41 || ch = 123 || ch = 32 || ch = 37 || ch = 42 || ch = 34 || ch = 92 || ch = 93 then false
  else !isControl ch

def isDigit (c : Nat) : Bool := 48 ≤ c && c ≤ 57

def flagCharsOk : Bool → Str → Bool
  | _, [] => true
  | first, ch :: r =>
    if ch = 92 then (if first then flagCharsOk false r else false)
    else if isAtomChar ch then flagCharsOk false r else false

/-- encoder.go isValidFlag (after the repair of C01's F01: a lone backslash is not a flag) -/
def isValidFlag (s : Str) : Bool := flagCharsOk true s && s.length > 0 && s ≠ [92]

def systemFlags : List Str :=
  [str "\\Seen", str "\\Answered", str "\\Flagged", str "\\Deleted", str "\\Draft", str "$Forwarded", str "$MDNSent",
   str "$Junk", str "$NotJunk", str "$Phishing", str "$Important"]

/-- internal.go canonicalFlag -/
def canonFlag (f : Str) : Str :=
  match systemFlags.find? fun g => lower g == lower f with
  | some g => g
  | none => f

def mailboxAttrs : List Str :=
  [str "\\NonExistent", str "\\Noinferiors", str "\\Noselect", str "\\HasChildren", str "\\HasNoChildren", str "\\Marked",
   str "\\Unmarked", str "\\Subscribed", str "\\Remote", str "\\All", str "\\Archive", str "\\Drafts", str "\\Flagged",
   str "\\Junk", str "\\Sent", str "\\Trash", str "\\Important"]

/-- internal.go canonicalMailboxAttr ∘ canonicalFlag (ExpectMailboxAttr reads a flag first) -/
def canonAttr (f : Str) : Str :=
  let f1 := canonFlag f
  match mailboxAttrs.find? fun g => lower g == lower f1 with
  | some g => g
  | none => f1

def inboxStr : Str := [73, 78, 66, 79, 88]
/-- strings.EqualFold(name, "INBOX") -/
def isInbox (name : List Nat) : Bool := lower name == [105, 110, 98, 111, 120]

/-! ## decimal -/

def digitsAux : Nat → Nat → Str → Str
  | 0, _, acc => acc
  | fuel+1, n, acc => if n < 10 then (48 + n) :: acc else digitsAux fuel (n / 10) ((48 + n % 10) :: acc)

def digits (n : Nat) : Str := digitsAux (n + 1) n []

def valOf (ds : Str) : Nat := ds.foldl (fun a d => a * 10 + (d - 48)) 0

/-! ## the writers (imapclient) -/

/-- `invalidFlag` stands for every argument the encoder refuses: an invalid flag or attribute, a negative number -/
inductive Refused where
  | invalidFlag | emptySet | unmodelled
deriving DecidableEq, Repr

/-- Encoder.Mailbox -/
def wMailbox (name : List Nat) : Wire :=
  if isInbox name then atom inboxStr else [.s (Utf7.encode name)]

/-- Encoder.NumSet -/
def wNumSet (s : NSet) : Except Refused Wire :=
  if s.text = [] then .error .emptySet else .ok (atom s.text)

/-- Encoder.Flag -/
def wFlag (f : Str) : Except Refused Wire :=
  if f ≠ [92, 42] && !isValidFlag f then .error .invalidFlag else .ok (atom f)

/-- Encoder.MailboxAttr -/
def wAttr (f : Str) : Except Refused Wire :=
  if f.head? ≠ some 92 || !isValidFlag f then .error .invalidFlag else .ok (atom f)

def wList (items : List Wire) : Wire := [.b 40] ++ joinSp items ++ [.b 41]

def wFlagList (fs : List Str) : Except Refused Wire := do
  let ws ← fs.mapM wFlag
  pure (wList ws)

def uidName (uid : Bool) (name : String) : Wire := if uid then kw "UID " ++ kw name else kw name

/-- status.go statusItems: the requested names (Go map order is not modelled: `Seg.anyOrder`) -/
def statusItems (o : StatusOpts) : List Wire :=
  (if o.messages then [kw "MESSAGES"] else []) ++ (if o.uidNext then [kw "UIDNEXT"] else []) ++
  (if o.uidValidity then [kw "UIDVALIDITY"] else []) ++ (if o.unseen then [kw "UNSEEN"] else []) ++
  (if o.deleted then [kw "DELETED"] else []) ++ (if o.size then [kw "SIZE"] else []) ++
  (if o.appendLimit then [kw "APPENDLIMIT"] else []) ++ (if o.deletedStorage then [kw "DELETED-STORAGE"] else []) ++
  (if o.highestModSeq then [kw "HIGHESTMODSEQ"] else [])

/-- list.go getSelectOpts -/
def listSelectOpts (o : ListOpts) : List Wire :=
  (if o.selSubscribed then [kw "SUBSCRIBED"] else []) ++ (if o.selRemote then [kw "REMOTE"] else []) ++
  (if o.selRecursive then [kw "RECURSIVEMATCH"] else []) ++ (if o.selSpecialUse then [kw "SPECIAL-USE"] else [])

/-- list.go getReturnOpts with the nested STATUS item list -/
def listReturnSegs (o : ListOpts) : List Seg :=
  let pre : List Wire := (if o.retSubscribed then [kw "SUBSCRIBED"] else []) ++ (if o.retChildren then [kw "CHILDREN"] else [])
  let post : List Wire := if o.retSpecialUse then [kw "SPECIAL-USE"] else []
  match o.retStatus with
  | none =>
    if pre ++ post = [] then [] else [.fixed (sp ++ kw "RETURN" ++ sp ++ wList (pre ++ post))]
  | some st =>
    [.fixed (sp ++ kw "RETURN" ++ sp ++ [.b 40] ++ joinSp (pre ++ [kw "STATUS" ++ sp ++ [.b 40]])), .anyOrder (statusItems st),
     .fixed ([.b 41] ++ (if post = [] then [] else sp ++ joinSp post) ++ [.b 41])]

/-- writeSectionPart: the numbers joined by dots (`%v` of an int) -/
def wPart : List Int → Except Refused Wire
  | [] => .ok []
  | [n] => if n < 0 then .error .unmodelled else .ok (atom (digits n.toNat))
  | n :: r => do
    let rest ← wPart r
    if n < 0 then .error .unmodelled else pure (atom (digits n.toNat) ++ [.b 46] ++ rest)

/-- writeSectionPartial -/
def wPartial : Option Partial → Except Refused Wire
  | none => .ok []
  | some p =>
    if p.offset < 0 || p.size < 0 then .error .invalidFlag   -- Encoder.Number64 refuses negative numbers
    else .ok ([.b 60] ++ atom (digits p.offset.toNat) ++ [.b 46] ++ atom (digits p.size.toNat) ++ [.b 62])

def specName : Spec → Wire
  | .none => []
  | .header => kw "HEADER"
  | .mime => kw "MIME"
  | .text => kw "TEXT"

/-- fetch.go writeFetchItemBodySection -/
def wBodySec (b : BodySec) : Except Refused Wire := do
  let part ← wPart b.part
  let sl ← wPartial b.slice
  let hdr : Wire :=
    if b.spec = .none then []
    else
      let (suffix, l) : Wire × List Str :=
        if b.fields ≠ [] then (kw ".FIELDS", b.fields)
        else if b.fieldsNot ≠ [] then (kw ".FIELDS.NOT", b.fieldsNot)
        else ([], [])
      specName b.spec ++ suffix ++ (if l = [] then [] else sp ++ wList (l.map fun h => [Item.s h]))
  pure (kw "BODY" ++ (if b.peek then kw ".PEEK" else []) ++ [.b 91] ++ part ++
    (if b.part ≠ [] && b.spec ≠ .none then [.b 46] else []) ++ hdr ++ [.b 93] ++ sl)

/-- fetch.go writeFetchItemBinarySection -/
def wBinSec (b : BinSec) : Except Refused Wire := do
  let part ← wPart b.part
  let sl ← wPartial b.slice
  pure (kw "BINARY" ++ (if b.peek then kw ".PEEK" else []) ++ [.b 91] ++ part ++ [.b 93] ++ sl)

/-- fetch.go writeFetchItemBinarySectionSize -/
def wBinSize (p : List Int) : Except Refused Wire := do
  let part ← wPart p
  pure (kw "BINARY.SIZE" ++ [.b 91] ++ part ++ [.b 93])

/-- the map-ordered scalar items of writeFetchItems -/
def fetchScalars (o : FetchOpts) : List Wire :=
  (if o.bodyStructure = some false then [kw "BODY"] else []) ++ (if o.bodyStructure = some true then [kw "BODYSTRUCTURE"] else []) ++
  (if o.envelope then [kw "ENVELOPE"] else []) ++ (if o.flags then [kw "FLAGS"] else []) ++
  (if o.internalDate then [kw "INTERNALDATE"] else []) ++ (if o.size then [kw "RFC822.SIZE"] else []) ++
  (if o.modSeq then [kw "MODSEQ"] else [])

/-- a separator before a block of items when something precedes it -/
def sepIf (b : Bool) : Wire := if b then sp else []

/-- fetch.go writeFetchItems -/
def wFetchItems (uid : Bool) (o : FetchOpts) : Except Refused (List Seg) := do
  let secs ← o.sections.mapM wBodySec
  let bins ← o.binary.mapM wBinSec
  let sizes ← o.binarySize.mapM wBinSize
  let first : List Wire := if o.uid || uid then [kw "UID"] else []
  let sc := fetchScalars o
  let tail := secs ++ bins ++ sizes
  pure [.fixed ([.b 40] ++ joinSp first ++ sepIf (first ≠ [] && sc ≠ [])), .anyOrder sc,
        .fixed (sepIf ((first ≠ [] || sc ≠ []) && tail ≠ []) ++ joinSp tail ++ [.b 41])]

/-- search.go returnSearchOptions (after the repair: SAVE is written) -/
def searchReturnItems (o : SearchOpts) : List Wire :=
  (if o.min then [kw "MIN"] else []) ++ (if o.max then [kw "MAX"] else []) ++ (if o.all then [kw "ALL"] else []) ++
  (if o.count then [kw "COUNT"] else []) ++ (if o.save then [kw "SAVE"] else [])

def isAscii (s : Str) : Bool := s.all (· ≤ 127)

mutual
  /-- search.go searchCriteriaIsASCII -/
  def critIsAscii : Crit → Bool
    | .mk f nots ors =>
      f.header.all (fun kv => isAscii kv.1 && isAscii kv.2) && f.body.all isAscii && f.text.all isAscii &&
        notsAscii nots && orsAscii ors
  def notsAscii : CritList → Bool
    | .nil => true
    | .cons c t => critIsAscii c && notsAscii t
  def orsAscii : OrList → Bool
    | .nil => true
    | .cons a b t => critIsAscii a && critIsAscii b && orsAscii t
end

/-- search.go flagSearchKey: exactly the five system flags in their canonical spelling -/
def flagSearchKey (f : Str) : Option Str :=
  if f = str "\\Answered" then some (str "ANSWERED") else if f = str "\\Deleted" then some (str "DELETED")
  else if f = str "\\Draft" then some (str "DRAFT") else if f = str "\\Flagged" then some (str "FLAGGED")
  else if f = str "\\Seen" then some (str "SEEN") else none

def addrKeys : List Str := [str "BCC", str "CC", str "FROM", str "SUBJECT", str "TO"]

def day1 : Int := 86400

/-- the date keys of writeSearchKey for one pair; `onRule` decides when the pair is written as `ON` -/
def wDatePair (onRule : Date → Date → Bool) (on since before : String) (s b : Date) : List Wire :=
  if s.day ≠ 0 && b.day ≠ 0 && onRule s b then [kw on ++ sp ++ [.date s.day]]
  else (if s.day ≠ 0 then [kw since ++ sp ++ [.date s.day]] else []) ++
       (if b.day ≠ 0 then [kw before ++ sp ++ [.date b.day]] else [])

/-- after the repair: `before` is the calendar day following `since` -/
def onRule (s b : Date) : Bool := b.day = s.day + day1
/-- as shipped: the two instants are 24 hours apart (whatever their days are) -/
def Legacy.onRule (s b : Date) : Bool := b.inst - s.inst = day1

def wHeader (kv : Str × Str) : Wire :=
  (if addrKeys.contains (upper kv.1) then atom (upper kv.1) else kw "HEADER" ++ sp ++ [.s kv.1]) ++ sp ++ [.s kv.2]

def wSearchFlag (pre : String) (f : Str) : Except Refused Wire :=
  match flagSearchKey f with
  | some k => .ok (kw pre ++ atom k)
  | none => do
    let w ← wFlag f
    pure (kw pre ++ kw "KEYWORD" ++ sp ++ w)

mutual
  /-- search.go writeSearchKey -/
  def wCrit (rule : Date → Date → Bool) : Crit → Except Refused Wire
    | .mk f nots ors => do
      let seqs ← f.seqSets.mapM wNumSet
      let uids ← f.uidSets.mapM fun s => do let w ← wNumSet s; pure (kw "UID" ++ sp ++ w)
      let fl ← f.flags.mapM (wSearchFlag "")
      let nfl ← f.notFlags.mapM (wSearchFlag "UN")
      let ns ← wNots rule nots
      let os ← wOrs rule ors
      let items : List Wire :=
        seqs ++ uids ++ wDatePair rule "ON" "SINCE" "BEFORE" f.since f.before ++
        wDatePair rule "SENTON" "SENTSINCE" "SENTBEFORE" f.sentSince f.sentBefore ++
        f.header.map wHeader ++ f.body.map (fun s => kw "BODY" ++ sp ++ [.s s]) ++
        f.text.map (fun s => kw "TEXT" ++ sp ++ [.s s]) ++ fl ++ nfl ++
        (if f.larger > 0 then [kw "LARGER" ++ sp ++ atom (digits f.larger.toNat)] else []) ++
        (if f.smaller > 0 then [kw "SMALLER" ++ sp ++ atom (digits f.smaller.toNat)] else []) ++ ns ++ os
      pure (if items = [] then kw "(ALL)" else wList items)
  def wNots (rule : Date → Date → Bool) : CritList → Except Refused (List Wire)
    | .nil => .ok []
    | .cons c t => do
      let w ← wCrit rule c
      let ws ← wNots rule t
      pure ((kw "NOT" ++ sp ++ w) :: ws)
  def wOrs (rule : Date → Date → Bool) : OrList → Except Refused (List Wire)
    | .nil => .ok []
    | .cons a b t => do
      let wa ← wCrit rule a
      let wb ← wCrit rule b
      let ws ← wOrs rule t
      pure ((kw "OR" ++ sp ++ wa ++ sp ++ wb) :: ws)
end

/-- which of the shipped defects of the client writers are in effect (all false = repaired code) -/
structure Quirks where
  /-- F14: the LIST pattern is written with `String`, not as a mailbox name -/
  listPatternRaw : Bool := false
  /-- F15: `returnSearchOptions` forgets SAVE -/
  dropSave : Bool := false
  /-- F30: `ON` is chosen when the instants are 24 h apart -/
  onByInstant : Bool := false
deriving DecidableEq, Repr

/-- the body of one protocol command (after the tag and a space, before CRLF) -/
def wBody (q : Quirks) (cfg : Cfg) : Cmd → Except Refused (List (List Seg))
  | .login u p => .ok [[.fixed (kw "LOGIN" ++ sp ++ [.s u] ++ sp ++ [.s p])]]
  | .select m ro => .ok [[.fixed ((if ro then kw "EXAMINE" else kw "SELECT") ++ sp ++ wMailbox m)]]
  | .create m use => do
    let attrs ← use.mapM wAttr
    pure [[.fixed (kw "CREATE" ++ sp ++ wMailbox m ++ (if use = [] then [] else sp ++ kw "(USE " ++ wList attrs ++ [.b 41]))]]
  | .delete m => .ok [[.fixed (kw "DELETE" ++ sp ++ wMailbox m)]]
  | .rename m n => .ok [[.fixed (kw "RENAME" ++ sp ++ wMailbox m ++ sp ++ wMailbox n)]]
  | .subscribe m => .ok [[.fixed (kw "SUBSCRIBE" ++ sp ++ wMailbox m)]]
  | .unsubscribe m => .ok [[.fixed (kw "UNSUBSCRIBE" ++ sp ++ wMailbox m)]]
  | .list ref pats o =>
    let pat : List Nat := pats.headD []
    let sel := listSelectOpts o
    let wpat : Wire := if q.listPatternRaw then [.s (pat.flatMap Utf7.utf8enc)] else wMailbox pat
    .ok [[.fixed (kw "LIST" ++ (if sel = [] then [] else sp ++ wList sel) ++ sp ++ wMailbox ref ++ sp ++ wpat)] ++ listReturnSegs o]
  | .status m o => .ok [[.fixed (kw "STATUS" ++ sp ++ wMailbox m ++ sp ++ [.b 40]), .anyOrder (statusItems o), .fixed [.b 41]]]
  | .append m flags time payload => do
    let fl ← wFlagList flags
    -- a zone offset with seconds is cut to minutes by the `-0700` layout: not expressible, outside the model
    if (time.map fun t => decide (t.off % 60 ≠ 0)) = some true then .error .unmodelled else
    pure [[.fixed (kw "APPEND" ++ sp ++ wMailbox m ++ sp ++ (if flags = [] then [] else fl ++ sp) ++
      (match time with | none => [] | some t => [.datetime t] ++ sp) ++ [.lit payload])]]
  | .copy uid s m => do
    let ws ← wNumSet s
    pure [[.fixed (uidName uid "COPY" ++ sp ++ ws ++ sp ++ wMailbox m)]]
  | .move uid s m => do
    let ws ← wNumSet s
    if cfg.hasMove then pure [[.fixed (uidName uid "MOVE" ++ sp ++ ws ++ sp ++ wMailbox m)]]
    else
      -- move.go: COPY, then STORE +FLAGS.SILENT (\Deleted), then [UID] EXPUNGE
      pure [[.fixed (uidName uid "COPY" ++ sp ++ ws ++ sp ++ wMailbox m)],
            [.fixed (uidName uid "STORE" ++ sp ++ ws ++ sp ++ kw "+FLAGS.SILENT (\\Deleted)")],
            [.fixed (if uid && cfg.hasUidPlus then kw "UID EXPUNGE" ++ sp ++ ws else kw "EXPUNGE")]]
  | .store uid s op silent flags => do
    let ws ← wNumSet s
    let fl ← wFlagList flags
    if op > 2 then .error .unmodelled else
    pure [[.fixed (uidName uid "STORE" ++ sp ++ ws ++ sp ++ (if op = 1 then [.b 43] else if op = 2 then [.b 45] else []) ++
      kw "FLAGS" ++ (if silent then kw ".SILENT" else []) ++ sp ++ fl)]]
  | .expunge none => .ok [[.fixed (kw "EXPUNGE")]]
  | .expunge (some u) => do
    let ws ← wNumSet u
    pure [[.fixed (kw "UID EXPUNGE" ++ sp ++ ws)]]
  | .fetch uid s o => do
    let ws ← wNumSet s
    let items ← wFetchItems uid o
    pure [[.fixed (uidName uid "FETCH" ++ sp ++ ws ++ sp)] ++ items]
  | .search uid c o => do
    let key ← wCrit (if q.onByInstant then Legacy.onRule else onRule) c
    let ret : List Wire := match o with
      | none => []
      | some o => searchReturnItems (if q.dropSave then { o with save := false } else o)
    let charset : Wire := if cfg.needCharset && !critIsAscii c then kw "CHARSET UTF-8 " else []
    pure [[.fixed (uidName uid "SEARCH" ++ (if ret = [] then [] else sp ++ kw "RETURN" ++ sp ++ [.b 40]))] ++
          (if ret = [] then [] else [.anyOrder ret, .fixed [.b 41]]) ++ [.fixed (sp ++ charset ++ key)]]
  | .unselect => .ok [[.fixed (kw "UNSELECT")]]

/-- client.go beginCommand … commandEncoder.end: tag, space, body, CRLF — one entry per protocol command -/
def printCmd (q : Quirks) (cfg : Cfg) (tag : Nat) (c : Cmd) : Except Refused (List (List Seg)) := do
  let bodies ← wBody q cfg c
  pure (bodies.zipIdx.map fun (segs, i) => [.fixed ([.b 84] ++ atom (digits (tag + i)) ++ sp)] ++ segs ++ [.fixed crlf])

/-! ## the readers (imapserver) -/

inductive Err where
  | bad          -- tagged BAD
  | no           -- tagged NO
  | unmodelled
deriving DecidableEq, Repr

abbrev P (α : Type) := Wire → Except Err (α × Wire)

/-- Decoder.Func over raw bytes: the longest prefix of bytes satisfying `valid` -/
def span (valid : Nat → Bool) : Wire → Str × Wire
  | .b c :: r => if valid c then let (t, rest) := span valid r; (c :: t, rest) else ([], .b c :: r)
  | w => ([], w)

/-- Decoder.ExpectAtom -/
def pAtom : P Str := fun w =>
  let (t, r) := span isAtomChar w
  if t = [] then .error .bad else .ok (t, r)

/-- Decoder.SP: a space not followed by CR/LF, or nothing at all when `(` follows -/
def decSP : Wire → Bool × Wire
  | .b 32 :: r =>
    match r with
    | .b c :: _ => (c ≠ 13 && c ≠ 10, r)
    | _ :: _ => (true, r)
    | [] => (false, r)
  | .b 40 :: r => (true, .b 40 :: r)
  | w => (false, w)

def pSP : P Unit := fun w =>
  let (ok, r) := decSP w
  if ok then .ok ((), r) else .error .bad

/-- Decoder.Special -/
def special (c : Nat) : Wire → Option Wire
  | .b d :: r => if d = c then some r else none
  | _ => none

def pSpecial (c : Nat) : P Unit := fun w =>
  match special c w with
  | some r => .ok ((), r)
  | none => .error .bad

/-- Decoder.ExpectCRLF (optional space, optional CR, LF) -/
def pCRLF : P Unit := fun w =>
  let w1 := (special 32 w).getD w
  let w2 := (special 13 w1).getD w1
  match special 10 w2 with
  | some r => .ok ((), r)
  | none => .error .bad

def maxBuffered : Nat := 4096

/-- decoder.go maxListDepth: `Decoder.List` refuses to open the 1000th nested list (a plain error: the
    server answers NO) -/
def maxListDepth : Nat := 1000

/-- search.go maxSearchKeyDepth: NOT / OR are refused at this nesting depth (BAD) -/
def maxSearchKeyDepth : Nat := 1000

/-- Decoder.ExpectAString: a string item (conn.go checkBufferedLiteral: above 4096 bytes the literal
    is refused — outside the model), else an atom -/
def pAString : P Str := fun w =>
  match w with
  | .s v :: r => if v.length > maxBuffered then .error .unmodelled else .ok (v, r)
  | _ => pAtom w

/-- Decoder.ExpectMailbox: an astring, INBOX case-folded, modified UTF-7 decoded (an encoding error
    is a plain Go error: the server answers NO) -/
def pMailbox : P (List Nat) := fun w => do
  let (name, r) ← pAString w
  if isInbox name then pure (inboxStr, r)
  else match Utf7.decode name with
    | none => .error .no
    | some cps => pure (cps, r)

def isNumSetChar (ch : Nat) : Bool := ch = 42 || isAtomChar ch

/-- Decoder.ExpectNumSet -/
def pNumSet : P NSet := fun w =>
  match special 36 w with
  | some r => .ok (.searchRes, r)
  | none =>
    let (t, r) := span isNumSetChar w
    if t = [] then .error .bad
    else match NumSet.parseSet (t.map Char.ofNat) with
      | none => .error .no
      | some s => .ok (.set s, r)

/-- Decoder.Number & co: digits, below `lim` -/
def pNumber (lim : Nat) : P Nat := fun w =>
  let (t, r) := span isDigit w
  if t = [] then .error .bad else if valOf t < lim then .ok (valOf t, r) else .error .bad

def lim32 : Nat := 4294967296
def lim63 : Nat := 9223372036854775808

/-- the `for` loop of Decoder.List: an item, then `)` or a separator -/
def listLoop {σ : Type} (item : σ → P σ) : Nat → σ → P σ
  | 0, _, _ => .error .unmodelled
  | fuel+1, st, w => do
    let (st1, r) ← item st w
    match special 41 r with
    | some r' => pure (st1, r')
    | none => do
      let (_, r2) ← pSP r
      listLoop item fuel st1 r2

/-- Decoder.List: `none` when there is no `(` -/
def pListOpt {σ : Type} (item : σ → P σ) (st : σ) : Wire → Except Err (Option σ × Wire) := fun w =>
  match special 40 w with
  | none => .ok (none, w)
  | some r =>
    match special 41 r with
    | some r' => .ok (some st, r')
    | none => do
      let (st1, r1) ← listLoop item r.length st r
      pure (some st1, r1)

/-- Decoder.ExpectList -/
def pList {σ : Type} (item : σ → P σ) (st : σ) : P σ := fun w => do
  let (o, r) ← pListOpt item st w
  match o with
  | none => .error .bad
  | some st1 => pure (st1, r)

/-- internal.go ExpectFlag -/
def pFlag : P Str := fun w =>
  match special 92 w with
  | some r =>
    match special 42 r with
    | some r' => .ok ([92, 42], r')
    | none => do
      let (name, r1) ← pAtom r
      pure (canonFlag (92 :: name), r1)
  | none => do
    let (name, r1) ← pAtom w
    pure (canonFlag name, r1)

def pFlagItem (acc : List Str) : P (List Str) := fun w => do
  let (f, r) ← pFlag w
  pure (acc ++ [f], r)

def pAttrItem (acc : List Str) : P (List Str) := fun w => do
  let (f, r) ← pFlag w
  pure (acc ++ [canonAttr f], r)

/-- status.go readStatusItem -/
def setStatusItem (o : StatusOpts) (name : Str) : Except Err StatusOpts :=
  let n := upper name
  if n = str "MESSAGES" then .ok { o with messages := true }
  else if n = str "UIDNEXT" then .ok { o with uidNext := true }
  else if n = str "UIDVALIDITY" then .ok { o with uidValidity := true }
  else if n = str "UNSEEN" then .ok { o with unseen := true }
  else if n = str "DELETED" then .ok { o with deleted := true }
  else if n = str "SIZE" then .ok { o with size := true }
  else if n = str "APPENDLIMIT" then .ok { o with appendLimit := true }
  else if n = str "DELETED-STORAGE" then .ok { o with deletedStorage := true }
  else if n = str "RECENT" then .ok o
  else .error .bad

def pStatusItem (o : StatusOpts) : P StatusOpts := fun w => do
  let (name, r) ← pAtom w
  let o1 ← setStatusItem o name
  pure (o1, r)

/-- list.go readListMailbox: a string, else list-chars; then modified UTF-7 -/
def isListChar (ch : Nat) : Bool := ch = 37 || ch = 42 || ch = 93 || isAtomChar ch

def pListMailbox : P (List Nat) := fun w => do
  let (raw, r) ← (match w with
    | .s v :: r => if v.length > maxBuffered then Except.error Err.unmodelled else .ok (v, r)
    | _ =>
      let (t, r) := span isListChar w
      if t = [] then Except.error Err.bad else .ok (t, r))
  match Utf7.decode raw with
  | none => .error .no
  | some cps => pure (cps, r)

def pSelectOpt (o : ListOpts) : P ListOpts := fun w => do
  let (name, r) ← pAString w
  let n := upper name
  if n = str "SUBSCRIBED" then pure ({ o with selSubscribed := true }, r)
  else if n = str "REMOTE" then pure ({ o with selRemote := true }, r)
  else if n = str "RECURSIVEMATCH" then pure ({ o with selRecursive := true }, r)
  else .error .bad

/-- list.go readReturnOption -/
def pReturnOpt (o : ListOpts) : P ListOpts := fun w => do
  let (name, r) ← pAtom w
  let n := upper name
  if n = str "SUBSCRIBED" then pure ({ o with retSubscribed := true }, r)
  else if n = str "CHILDREN" then pure ({ o with retChildren := true }, r)
  else if n = str "STATUS" then do
    let (_, r1) ← pSP r
    let (st, r2) ← pList pStatusItem {} r1
    pure ({ o with retStatus := some st }, r2)
  else .error .bad

def pPatternItem (acc : List (List Nat)) : P (List (List Nat)) := fun w => do
  let (p, r) ← pListMailbox w
  pure (if p = [] then acc else acc ++ [p], r)

/-- list.go readListCmd: the optional selection options and the space after them -/
def pListSel : P ListOpts := fun w => do
  let (selO, r1) ← pListOpt pSelectOpt {} w
  match selO with
  | none => pure ({}, r1)
  | some o => do
    let (_, r) ← pSP r1
    pure (o, r)

/-- list.go readListCmd: one pattern, or a parenthesised non-empty list of patterns -/
def pListPats : P (List (List Nat)) := fun w => do
  let (patsO, r5) ← pListOpt pPatternItem [] w
  match patsO with
  | some ps => if ps = [] then .error .bad else pure (ps, r5)
  | none => do
    let (p, r) ← pListMailbox r5
    pure (if p = [] then [] else [p], r)

/-- list.go readListCmd: the optional `RETURN (…)` -/
def pListRet (o1 : ListOpts) : P ListOpts := fun w =>
  let (sp?, r7) := decSP w
  if sp? then do
    let (a, r) ← pAtom r7
    if upper a ≠ str "RETURN" then .error .bad else
    let (_, r) ← pSP r
    pList pReturnOpt o1 r
  else pure (o1, r7)

/-- list.go readListCmd (after the command name) -/
def pListCmd : P Cmd := fun w => do
  let (_, r0) ← pSP w
  let (o1, r2) ← pListSel r0
  let (ref, r3) ← pMailbox r2
  let (_, r4) ← pSP r3
  let (pats, r6) ← pListPats r4
  let (o2, r8) ← pListRet o1 r6
  let (_, r9) ← pCRLF r8
  if o2.selRecursive && !o2.selSubscribed then .error .bad
  else pure (.list ref pats o2, r9)

/-- the analysis of the item name in store.go handleStore: upper case, suffix `.SILENT`, prefix `+` / `-`,
    then `FLAGS` must remain -/
def storeAnalyse (item : Str) : Option (Nat × Bool) :=
  let it := upper item
  let silentSuffix := str ".SILENT"
  let silent := it.length ≥ silentSuffix.length && it.drop (it.length - silentSuffix.length) = silentSuffix
  let it1 := if silent then it.take (it.length - silentSuffix.length) else it
  let (op, it2) : Nat × Str := match it1 with
    | 43 :: t => (1, t)
    | 45 :: t => (2, t)
    | t => (0, t)
  if it2 ≠ str "FLAGS" then none else some (op, silent)

/-- store.go handleStore -/
def pStore (uid : Bool) : P Cmd := fun w => do
  let (_, r0) ← pSP w
  let (s, r1) ← pNumSet r0
  let (_, r2) ← pSP r1
  let (item, r3) ← pAtom r2
  let (_, r4) ← pSP r3
  let (flO, r5) ← pListOpt pFlagItem [] r4
  let (flags, r6) ← (match flO with
    | some fl => Except.ok (fl, r5)
    | none => Except.error Err.unmodelled)   -- the bare (unparenthesised) flag form is never sent by the client
  let (_, r7) ← pCRLF r6
  match storeAnalyse item with
  | none => .error .bad
  | some (op, silent) => pure (.store uid s op silent flags, r7)

/-- copy.go readCopy -/
def pCopy (uid mv : Bool) : P Cmd := fun w => do
  let (_, r0) ← pSP w
  let (s, r1) ← pNumSet r0
  let (_, r2) ← pSP r1
  let (m, r3) ← pMailbox r2
  let (_, r4) ← pCRLF r3
  pure (if mv then .move uid s m else .copy uid s m, r4)

/-- fetch.go readSectionPart -/
def pSectionPart : Nat → List Int → Wire → List Int × Bool × Wire
  | 0, part, w => (part, false, w)
  | fuel+1, part, w =>
    let dot := part ≠ []
    match (if dot then special 46 w else some w) with
    | none => (part, false, w)
    | some w1 =>
      let (t, r) := span isDigit w1
      if t = [] then (part, dot, w1)
      else if valOf t ≥ lim32 then (part, dot, r)   -- Decoder.Number has consumed the digits when ParseUint overflows
      else pSectionPart fuel (part ++ [(valOf t : Int)]) r

def pHeaderItem (acc : List Str) : P (List Str) := fun w => do
  let (s, r) ← pAString w
  pure (acc ++ [s], r)

/-- fetch.go readSection: the specifier after the part path (`dot`: a dot was consumed after the last number) -/
def pSectionSpec (peek : Bool) (part : List Int) (dot : Bool) : P BodySec := fun r0 =>
  if dot || part = [] then do
    let (t, r) := span isAtomChar r0
    if dot && t = [] then Except.error Err.bad else
    let n := upper t
    if n = [] then pure (({ part := part, peek := peek } : BodySec), r)
    else if n = str "HEADER" then pure ({ part := part, peek := peek, spec := .header }, r)
    else if n = str "MIME" then pure ({ part := part, peek := peek, spec := .mime }, r)
    else if n = str "TEXT" then pure ({ part := part, peek := peek, spec := .text }, r)
    else if n = str "HEADER.FIELDS" || n = str "HEADER.FIELDS.NOT" then do
      let (_, r) ← pSP r
      let (l, r) ← pList pHeaderItem [] r
      if n = str "HEADER.FIELDS" then pure ({ part := part, peek := peek, spec := .header, fields := l }, r)
      else pure ({ part := part, peek := peek, spec := .header, fieldsNot := l }, r)
    else Except.error Err.bad
  else Except.ok (({ part := part, peek := peek } : BodySec), r0)

/-- fetch.go readSection (after `[`) -/
def pSection (peek : Bool) : P BodySec := fun w =>
  match special 93 w with
  | some r => .ok ({ peek := peek }, r)
  | none => do
    let (part, dot, r0) := pSectionPart w.length [] w
    let (sec, r1) ← pSectionSpec peek part dot r0
    let (_, r2) ← pSpecial 93 r1
    pure (sec, r2)

/-- fetch.go maybeReadPartial -/
def pPartial : P (Option Partial) := fun w =>
  match special 60 w with
  | none => .ok (none, w)
  | some r => do
    let (off, r1) ← pNumber lim63 r
    let (_, r2) ← pSpecial 46 r1
    let (size, r3) ← pNumber lim63 r2
    let (_, r4) ← pSpecial 62 r3
    pure (some ⟨off, size⟩, r4)

/-- fetch.go readSectionBinary -/
def pBinPartLoop : Nat → List Int → P (List Int)
  | 0, _, _ => .error .unmodelled
  | fuel+1, acc, w => do
    let (n, r) ← pNumber lim32 w
    match special 46 r with
    | some r' => pBinPartLoop fuel (acc ++ [(n : Int)]) r'
    | none => do
      let (_, r1) ← pSpecial 93 r
      pure (acc ++ [(n : Int)], r1)

def pSectionBinary : P (List Int) := fun w => do
  let (_, r) ← pSpecial 91 w
  match special 93 r with
  | some r' => pure ([], r')
  | none => pBinPartLoop r.length [] r

def isMsgAttNameChar (ch : Nat) : Bool := ch ≠ 91 && isAtomChar ch

/-- fetch.go handleFetchBodyStructure -/
def setBodyStructure (o : FetchOpts) (ext : Bool) : FetchOpts :=
  if o.bodyStructure = none || ext then { o with bodyStructure := some ext } else o

/-- fetch.go handleFetchAtt (inside the parenthesised list; macros are refused there) -/
def pFetchAtt (o : FetchOpts) : P FetchOpts := fun w => do
  let (t, r) := span isMsgAttNameChar w
  if t = [] then .error .bad else
  let n := upper t
  if n = str "ALL" || n = str "FAST" || n = str "FULL" then .error .bad
  else if n = str "BODYSTRUCTURE" then pure (setBodyStructure o true, r)
  else if n = str "ENVELOPE" then pure ({ o with envelope := true }, r)
  else if n = str "FLAGS" then pure ({ o with flags := true }, r)
  else if n = str "INTERNALDATE" then pure ({ o with internalDate := true }, r)
  else if n = str "RFC822.SIZE" then pure ({ o with size := true }, r)
  else if n = str "UID" then pure ({ o with uid := true }, r)
  else if n = str "RFC822" then pure ({ o with sections := o.sections ++ [{}] }, r)
  else if n = str "RFC822.HEADER" then pure ({ o with sections := o.sections ++ [{ spec := .header, peek := true }] }, r)
  else if n = str "RFC822.TEXT" then pure ({ o with sections := o.sections ++ [{ spec := .text }] }, r)
  else if n = str "BINARY" || n = str "BINARY.PEEK" then do
    let (part, r1) ← pSectionBinary r
    let (sl, r2) ← pPartial r1
    pure ({ o with binary := o.binary ++ [{ part := part, slice := sl, peek := n = str "BINARY.PEEK" }] }, r2)
  else if n = str "BINARY.SIZE" then do
    let (part, r1) ← pSectionBinary r
    pure ({ o with binarySize := o.binarySize ++ [part] }, r1)
  else if n = str "BODY" then
    match special 91 r with
    | none => pure (setBodyStructure o false, r)
    | some r1 => do
      let (sec, r2) ← pSection false r1
      let (sl, r3) ← pPartial r2
      pure ({ o with sections := o.sections ++ [{ sec with slice := sl }] }, r3)
  else if n = str "BODY.PEEK" then do
    let (_, r1) ← pSpecial 91 r
    let (sec, r2) ← pSection true r1
    let (sl, r3) ← pPartial r2
    pure ({ o with sections := o.sections ++ [{ sec with slice := sl }] }, r3)
  else .error .bad

/-- fetch.go handleFetch -/
def pFetch (uid : Bool) : P Cmd := fun w => do
  let (_, r0) ← pSP w
  let (s, r1) ← pNumSet r0
  let (_, r2) ← pSP r1
  let (oO, r3) ← pListOpt pFetchAtt {} r2
  let (o, r4) ← (match oO with
    | some o => Except.ok (o, r3)
    | none => Except.error Err.unmodelled)   -- a single unparenthesised item / macro is never sent by the client
  let (_, r5) ← pCRLF r4
  pure (.fetch uid s (if uid then { o with uid := true } else o), r5)

/-- search.go readSearchReturnOpts -/
def pSearchReturnOpt (o : SearchOpts) : P SearchOpts := fun w => do
  let (name, r) ← pAtom w
  let n := upper name
  if n = str "MIN" then pure ({ o with min := true }, r)
  else if n = str "MAX" then pure ({ o with max := true }, r)
  else if n = str "ALL" then pure ({ o with all := true }, r)
  else if n = str "COUNT" then pure ({ o with count := true }, r)
  else if n = str "SAVE" then pure ({ o with save := true }, r)
  else .error .bad

def isSearchAtomChar (ch : Nat) : Bool := ch = 42 || isAtomChar ch

/-- search.go intersectSince / intersectBefore on days (0 = unset) -/
def interSince (a b : Int) : Int := if a = 0 then b else if b = 0 then a else if a > b then a else b
def interBefore (a b : Int) : Int := if a = 0 then b else if b = 0 then a else if a < b then a else b
/-- SearchCriteria.And on Larger / Smaller (after the repair of `Smaller`) -/
def andLarger (a b : Int) : Int := if a = 0 || b > a then b else a
def andSmaller (a b : Int) : Int := if b ≠ 0 && (a = 0 || b < a) then b else a

def titleCase (s : Str) : Str :=
  match lower s with
  | [] => []
  | c :: r => upperByte c :: r

def Crit.withFlat (c : Crit) (g : Flat → Flat) : Crit := .mk (g c.flat) c.nots c.ors

def dateOnly (d : Int) : Date := { day := d, inst := d }

def pDate : P Int := fun w =>
  match w with
  | .date d :: r => .ok (d, r)
  | .s _ :: _ => .error .no           -- a string that is not a date: time.Parse fails, plain error
  | _ => .error .unmodelled

/-- the `case` labels of the switch in readSearchKeyWithAtom -/
def searchKeywords : List Str :=
  [str "ALL", str "UID", str "ANSWERED", str "DELETED", str "DRAFT", str "FLAGGED", str "RECENT", str "SEEN", str "UNANSWERED",
   str "UNDELETED", str "UNDRAFT", str "UNFLAGGED", str "UNSEEN", str "NEW", str "OLD", str "KEYWORD", str "UNKEYWORD", str "BCC",
   str "CC", str "FROM", str "SUBJECT", str "TO", str "HEADER", str "SINCE", str "BEFORE", str "ON", str "SENTSINCE", str "SENTBEFORE",
   str "SENTON", str "BODY", str "TEXT", str "LARGER", str "SMALLER", str "NOT", str "OR", [36]]

/-- search.go readSearchKeyWithAtom; `rec` reads a nested key (for NOT / OR).  The `default:` of the Go
    switch (a sequence set) comes first here: the key is none of the `case` labels. -/
def pSearchKeyAtom (rec : Crit → P Crit) (kd : Nat) (c : Crit) (key : Str) : P Crit := fun w =>
  if (key = str "NOT" || key = str "OR") && kd ≥ maxSearchKeyDepth then .error .bad
  else if !searchKeywords.contains key then
    match NumSet.parseSet (key.map Char.ofNat) with
    | none => .error .no
    | some s => .ok (c.withFlat fun f => { f with seqSets := f.seqSets ++ [.set s] }, w)
  else if key = str "ALL" then .ok (c, w)
  else if key = str "UID" then do
    let (_, r) ← pSP w
    let (s, r) ← pNumSet r
    pure (c.withFlat fun f => { f with uidSets := f.uidSets ++ [s] }, r)
  else if [str "ANSWERED", str "DELETED", str "DRAFT", str "FLAGGED", str "RECENT", str "SEEN"].contains key then
    .ok (c.withFlat fun f => { f with flags := f.flags ++ [92 :: titleCase key] }, w)
  else if [str "UNANSWERED", str "UNDELETED", str "UNDRAFT", str "UNFLAGGED", str "UNSEEN"].contains key then
    .ok (c.withFlat fun f => { f with notFlags := f.notFlags ++ [92 :: titleCase (key.drop 2)] }, w)
  else if key = str "NEW" then
    .ok (c.withFlat fun f => { f with flags := f.flags ++ [str "\\Recent"], notFlags := f.notFlags ++ [str "\\Seen"] }, w)
  else if key = str "OLD" then
    .ok (c.withFlat fun f => { f with notFlags := f.notFlags ++ [str "\\Recent"] }, w)
  else if key = str "KEYWORD" || key = str "UNKEYWORD" then do
    let (_, r) ← pSP w
    let (fl, r) ← pFlag r
    if key = str "KEYWORD" then pure (c.withFlat fun f => { f with flags := f.flags ++ [fl] }, r)
    else pure (c.withFlat fun f => { f with notFlags := f.notFlags ++ [fl] }, r)
  else if addrKeys.contains key then do
    let (_, r) ← pSP w
    let (v, r) ← pAString r
    pure (c.withFlat fun f => { f with header := f.header ++ [(titleCase key, v)] }, r)
  else if key = str "HEADER" then do
    let (_, r) ← pSP w
    let (k, r) ← pAString r
    let (_, r) ← pSP r
    let (v, r) ← pAString r
    pure (c.withFlat fun f => { f with header := f.header ++ [(k, v)] }, r)
  else if [str "SINCE", str "BEFORE", str "ON", str "SENTSINCE", str "SENTBEFORE", str "SENTON"].contains key then do
    let (_, r) ← pSP w
    let (d, r) ← pDate r
    let g : Flat → Flat :=
      if key = str "SINCE" then fun f => { f with since := dateOnly (interSince f.since.day d) }
      else if key = str "BEFORE" then fun f => { f with before := dateOnly (interBefore f.before.day d) }
      else if key = str "ON" then fun f =>
        { f with since := dateOnly (interSince f.since.day d), before := dateOnly (interBefore f.before.day (d + day1)) }
      else if key = str "SENTSINCE" then fun f => { f with sentSince := dateOnly (interSince f.sentSince.day d) }
      else if key = str "SENTBEFORE" then fun f => { f with sentBefore := dateOnly (interBefore f.sentBefore.day d) }
      else fun f =>
        { f with sentSince := dateOnly (interSince f.sentSince.day d), sentBefore := dateOnly (interBefore f.sentBefore.day (d + day1)) }
    pure (c.withFlat g, r)
  else if key = str "BODY" then do
    let (_, r) ← pSP w
    let (v, r) ← pAString r
    pure (c.withFlat fun f => { f with body := f.body ++ [v] }, r)
  else if key = str "TEXT" then do
    let (_, r) ← pSP w
    let (v, r) ← pAString r
    pure (c.withFlat fun f => { f with text := f.text ++ [v] }, r)
  else if key = str "LARGER" || key = str "SMALLER" then do
    let (_, r) ← pSP w
    let (n, r) ← pNumber lim63 r
    if key = str "LARGER" then pure (c.withFlat fun f => { f with larger := andLarger f.larger n }, r)
    else pure (c.withFlat fun f => { f with smaller := andSmaller f.smaller n }, r)
  else if key = str "NOT" then do
    let (_, r) ← pSP w
    let (n, r) ← rec Crit.empty r
    pure (.mk c.flat (c.nots.snoc n) c.ors, r)
  else if key = str "OR" then do
    let (_, r) ← pSP w
    let (a, r) ← rec Crit.empty r
    let (_, r) ← pSP r
    let (b, r) ← rec Crit.empty r
    pure (.mk c.flat c.nots (c.ors.snoc a b), r)
  else if key = [36] then
    .ok (c.withFlat fun f => { f with uidSets := f.uidSets ++ [.searchRes] }, w)
  else .error .unmodelled   -- unreachable: the labels are exhausted

/-- search.go readSearchKeyDepth: an atom-led key, or a parenthesised list of keys for the same criteria
    (`Decoder.ExpectList` around readSearchKeyDepth).  `ld` is `dec.listDepth`, `kd` the NOT/OR depth; the
    fuel only makes the recursion structural (the line length bounds it). -/
def pSearchKey : Nat → Nat → Nat → Crit → P Crit
  | 0, _, _, _, _ => .error .unmodelled
  | fuel+1, ld, kd, c, w =>
    let (t, r) := span isSearchAtomChar w
    if t ≠ [] then pSearchKeyAtom (pSearchKey fuel ld (kd + 1)) kd c (upper t) r
    else
      match special 40 w with
      | none => .error .bad
      | some r1 =>
        match special 41 r1 with
        | some r2 => .ok (c, r2)
        | none =>
          if ld + 1 ≥ maxListDepth then .error .no
          else listLoop (pSearchKey fuel (ld + 1) kd) r1.length c r1

/-- the `for` loop of handleSearch over the top-level keys -/
def pSearchTop : Nat → Crit → Option Str → P Crit
  | 0, _, _, _ => .error .unmodelled
  | fuel+1, c, pending, w => do
    let (c1, r) ← (match pending with
      | some a => pSearchKeyAtom (pSearchKey (w.length + 2) 0 1) 0 c (upper a) w
      | none => pSearchKey (w.length + 2) 0 0 c w)
    let (sp?, r1) := decSP r
    if sp? then pSearchTop fuel c1 none r1 else pure (c1, r1)

/-- search.go handleSearch after the return options: optional CHARSET, the keys, the defaulting of ALL -/
def pSearchRest (uid : Bool) (opts : SearchOpts) : P Cmd := fun r1 => do
  let (a1, r2) := span isSearchAtomChar r1
  let (a2, r3) ← (if a1 ≠ [] && upper a1 = str "CHARSET" then do
      let (_, r) ← pSP r2
      let (cs, r) ← pAString r
      let (_, r) ← pSP r
      if upper cs ≠ str "US-ASCII" && upper cs ≠ str "UTF-8" then Except.error Err.no else
      let (a, r) := span isSearchAtomChar r
      pure (a, r)
    else Except.ok (a1, r2))
  let (c, r4) ← pSearchTop (r3.length + 1) Crit.empty (if a2 = [] then none else some a2) r3
  let (_, r5) ← pCRLF r4
  let opts1 := if !opts.min && !opts.max && !opts.all && !opts.count then { opts with all := true } else opts
  pure (.search uid c (some opts1), r5)

/-- search.go handleSearch -/
def pSearch (uid : Bool) : P Cmd := fun w => do
  let (_, r0) ← pSP w
  let (a0, r1) := span isSearchAtomChar r0
  if a0 ≠ [] && upper a0 = str "RETURN" then do
    let (_, r) ← pSP r1
    let (o, r) ← pList pSearchReturnOpt {} r
    let (_, r) ← pSP r
    pSearchRest uid o r
  else pSearchRest uid {} r0

/-- append.go handleAppend -/
def pAppend : P Cmd := fun w => do
  let (_, r0) ← pSP w
  let (m, r1) ← pMailbox r0
  let (_, r2) ← pSP r1
  let (flO, r3) ← pListOpt pFlagItem [] r2
  let (flags, r4) ← (match flO with
    | some fl => do let (_, r) ← pSP r3; pure (fl, r)
    | none => Except.ok (([] : List Str), r3))
  let (time, r5) ← (match r4 with
    | .datetime t :: r => do let (_, r) ← pSP r; pure (some t, r)
    | .s _ :: _ => Except.error Err.no
    | _ => Except.ok ((none : Option ATime), r4))
  match r5 with
  | .lit payload :: r6 => do
    let (_, r7) ← pCRLF r6
    pure (.append m flags time payload, r7)
  | _ => .error .bad

/-- create.go handleCreate -/
def pCreate : P Cmd := fun w => do
  let (_, r0) ← pSP w
  let (m, r1) ← pMailbox r0
  let (sp?, r2) := decSP r1
  let (use, r3) ← (if sp? then do
      let (_, r) ← pSpecial 40 r2
      let (a, r) ← pAtom r
      let (_, r) ← pSP r
      if upper a ≠ str "USE" then Except.error Err.bad else
      let (l, r) ← pList pAttrItem [] r
      let (_, r) ← pSpecial 41 r
      pure (l, r)
    else Except.ok (([] : List Str), r2))
  let (_, r4) ← pCRLF r3
  pure (.create m use, r4)

def pOneMailbox (mk : List Nat → Cmd) : P Cmd := fun w => do
  let (_, r0) ← pSP w
  let (m, r1) ← pMailbox r0
  let (_, r2) ← pCRLF r1
  pure (mk m, r2)

/-- login.go handleLogin -/
def pLogin : P Cmd := fun w => do
  let (_, r) ← pSP w
  let (u, r) ← pAString r
  let (_, r) ← pSP r
  let (p, r) ← pAString r
  let (_, r) ← pCRLF r
  pure (.login u p, r)

/-- conn.go handleRename -/
def pRename : P Cmd := fun w => do
  let (_, r) ← pSP w
  let (m, r) ← pMailbox r
  let (_, r) ← pSP r
  let (n, r) ← pMailbox r
  let (_, r) ← pCRLF r
  pure (.rename m n, r)

/-- status.go handleStatus -/
def pStatus : P Cmd := fun w => do
  let (_, r) ← pSP w
  let (m, r) ← pMailbox r
  let (_, r) ← pSP r
  let (o, r) ← pList pStatusItem {} r
  let (_, r) ← pCRLF r
  pure (.status m o, r)

/-- expunge.go handleExpunge / handleUIDExpunge -/
def pExpunge : P Cmd := fun w => do
  let (_, r) ← pCRLF w
  pure (.expunge none, r)

def pUidExpunge : P Cmd := fun w => do
  let (_, r) ← pSP w
  let (s, r) ← pNumSet r
  let (_, r) ← pCRLF r
  pure (.expunge (some s), r)

def pUnselect : P Cmd := fun w => do
  let (_, r) ← pCRLF w
  pure (.unselect, r)

/-- the head of conn.go readCommand: tag, name (upper-cased), `UID` prefix -/
def pHeader : P (Bool × Str) := fun w => do
  let (_, r0) ← pAtom w
  let (_, r1) ← pSP r0
  let (name0, r2) ← pAtom r1
  if upper name0 = str "UID" then do
    let (_, r) ← pSP r2
    let (sub, r) ← pAtom r
    pure ((true, upper sub), r)
  else pure ((false, upper name0), r2)

def one (p : P Cmd) (w : Wire) : Except Err (List Cmd × Wire) := do
  let (c, r) ← p w
  pure ([c], r)

/-- the `switch name` of conn.go readCommand.  Returns the session calls the handler makes (state
    checks are property C05: the harness issues every command in a state that permits it). -/
def dispatch (cfg : Cfg) (uid : Bool) (name : Str) (w : Wire) : Except Err (List Cmd × Wire) :=
  if !uid && name = str "LOGIN" then one pLogin w
  else if !uid && (name = str "SELECT" || name = str "EXAMINE") then do
    let (c, r) ← pOneMailbox (fun m => .select m (name = str "EXAMINE")) w
    pure ((if cfg.presel then [.unselect, c] else [c]), r)
  else if !uid && name = str "CREATE" then one pCreate w
  else if !uid && name = str "DELETE" then one (pOneMailbox .delete) w
  else if !uid && name = str "SUBSCRIBE" then one (pOneMailbox .subscribe) w
  else if !uid && name = str "UNSUBSCRIBE" then one (pOneMailbox .unsubscribe) w
  else if !uid && name = str "RENAME" then one pRename w
  else if !uid && name = str "LIST" then one pListCmd w
  else if !uid && name = str "STATUS" then one pStatus w
  else if !uid && name = str "APPEND" then one pAppend w
  else if name = str "COPY" then one (pCopy uid false) w
  else if name = str "MOVE" then one (pCopy uid true) w
  else if name = str "STORE" then one (pStore uid) w
  else if name = str "FETCH" then one (pFetch uid) w
  else if name = str "SEARCH" then one (pSearch uid) w
  else if !uid && name = str "EXPUNGE" then one pExpunge w
  else if uid && name = str "EXPUNGE" then one pUidExpunge w
  else if !uid && name = str "UNSELECT" then one pUnselect w
  else .error .bad

/-- conn.go readCommand -/
def parseOne (cfg : Cfg) (w : Wire) : Except Err (List Cmd × Wire) := do
  let ((uid, name), r) ← pHeader w
  dispatch cfg uid name r

/-- the server reads the protocol commands of one client call one after the other; MOVE needs a
    session implementing it (the harness pairs the MOVE capability with such a session) -/
def parseCmds (cfg : Cfg) : List Wire → Except Err (List Cmd)
  | [] => .ok []
  | w :: ws => do
    let (cs, rest) ← parseOne cfg w
    if rest ≠ [] then .error .bad else
    let more ← parseCmds { cfg with presel := cfg.presel } ws
    pure (cs ++ more)

end GoImap.CmdGrammar

namespace GoImap.CmdGrammar
deriving instance DecidableEq for Crit, CritList, OrList
deriving instance DecidableEq for Cmd

/-- what a client call comes to: refused by the client's own encoder, answered BAD / NO by the server
    (no session call is made), or delivered as session calls -/
inductive Outcome where
  | refused
  | unmodelled
  | bad
  | no
  | calls (cs : List Cmd)
deriving DecidableEq

/-- client writer, then server reader, for one linearisation of the map-ordered items (the listed order) -/
def roundTrip (q : Quirks) (cfg : Cfg) (tag : Nat) (c : Cmd) : Outcome :=
  match printCmd q cfg tag c with
  | .error .unmodelled => .unmodelled
  | .error _ => .refused
  | .ok cmds =>
    match parseCmds cfg (cmds.map linearise) with
    | .error .unmodelled => .unmodelled
    | .error .bad => .bad
    | .error .no => .no
    | .ok cs => .calls cs

/-- the client call `c` is delivered as `calls` whatever order the client's maps yield: every way of writing
    each of its protocol commands is read back by the server as these session calls -/
def Delivers (q : Quirks) (cfg : Cfg) (tag : Nat) (c : Cmd) (calls : List Cmd) : Prop :=
  ∃ cmds, printCmd q cfg tag c = .ok cmds ∧ ∀ wires, LinAll cmds wires → parseCmds cfg wires = .ok calls
end GoImap.CmdGrammar
