/-
  M8 — executable mirror of the go-imap server at the framing level:
    /repo/imapserver/conn.go          serve, readCommand (one handler, DiscardLine, one tagged reply),
                                      checkBufferedLiteral, acceptLiteral, readLine
    /repo/imapserver/{login,select,create,append,authenticate,idle,search,...}.go   the handlers, as
                                      argument signatures over the decoder primitives
    /repo/internal/imapwire/decoder.go  readByte/acceptByte, SP, CRLF, Func/Atom, Quoted, Text,
                                      Number64, LiteralReader, Literal, ExpectAString, ExpectMailbox,
                                      List (depth cap), DiscardLine, UnreadNonSyncLiteral

  Bytes are `Nat`s.  One state `S` is threaded through everything: the unread client stream, the
  number of octets consumed so far (`pos`), the per-command decoder fields (`err`, `lit`, `crlf`,
  `tail`, `listDepth`), the connection state, the events produced so far (reversed) and three
  ghosts: `roles` (for every octet consumed, how the server consumed it: as command text, as
  literal payload, or as a raw continuation line) and marker events (`quotedCRLF`, `liberal`,
  `buffered n`, `appendLit n accepted`, `depthAt n` = a recursive parser runs n Go frames deep).

  What Go does by blocking on the connection is "the stream ends here" in the model: the event
  `eof` marks the first time the server wanted an octet that was not there; what follows it is what
  the server does when the client then closes the connection.

  Deliberately small.  Modelled exactly: NOOP CHECK CAPABILITY LOGOUT STARTTLS(no TLS config)
  UNAUTHENTICATE NAMESPACE CLOSE UNSELECT EXPUNGE ENABLE LOGIN SELECT EXAMINE CREATE(name only)
  DELETE RENAME SUBSCRIBE UNSUBSCRIBE APPEND(optional flag list, no date, no UTF8 extension)
  AUTHENTICATE(PLAIN) IDLE, SEARCH / UID SEARCH over the keys ALL, the flag keys, NOT, OR and
  parenthesised lists (the recursive skeleton), unknown commands.  Every other command or form
  (LIST LSUB STATUS FETCH STORE COPY MOVE, other search keys, CREATE parameters, APPEND date) makes
  the model stop with the event `opaque`: a faithful mirror of those handlers would be
  disproportionate for a framing model; the oracle (Spec/Framing.lean) still judges them.
  The backend is the recording stub: every session call succeeds, except that `Cfg.appendFails`
  makes Session.Append fail before it reads the message (the one backend failure that matters
  for framing: the handler has to drain the literal itself).

  `Fixes` selects the repaired behaviour (all true = the current tree) or the behaviour before a
  given repair (`Legacy`), which is kept for the counterexample theorems.
-/
import GoImap.Model.Utf7
namespace GoImap.Framing

abbrev Bytes := List Nat

inductive Role where
  | text | payload | line
deriving DecidableEq, Repr

inductive Cls where
  | ok | no | bad
deriving DecidableEq, Repr

/-- class of a Go error as readCommand sees it (conn.go:285-303) -/
inductive Err where
  | eof        -- io.ErrUnexpectedEOF: neither imap.Error nor DecoderExpectError
  | expect     -- *imapwire.DecoderExpectError
  | no         -- *imap.Error of type NO
  | bad        -- *imap.Error of type BAD
  | internal   -- any other error ("Internal server error")
deriving DecidableEq, Repr

def Err.cls : Err → Cls
  | .expect => .bad
  | .bad => .bad
  | _ => .no

inductive St where
  | notAuth | auth | selected | logout
deriving DecidableEq, Repr

/-- the Session methods the modelled handlers call -/
inductive Fn where
  | login | select | unselect | create | delete | rename | subscribe | unsubscribe | append
  | search | idle | expunge | unauthenticate | namespace
deriving DecidableEq, Repr

def Fn.name : Fn → String
  | .login => "Login" | .select => "Select" | .unselect => "Unselect" | .create => "Create"
  | .delete => "Delete" | .rename => "Rename" | .subscribe => "Subscribe"
  | .unsubscribe => "Unsubscribe" | .append => "Append" | .search => "Search" | .idle => "Idle"
  | .expunge => "Expunge" | .unauthenticate => "Unauthenticate" | .namespace => "Namespace"

structure Call where
  fn : Fn
  args : List Bytes
deriving DecidableEq, Repr

inductive Event where
  | tagged (tag : Bytes) (cls : Cls)
  | cont (off : Nat)           -- "+ ..." written when `off` octets had been consumed
  | bye
  | exec (c : Call)
  | close                      -- the server closed the connection
  | eof                        -- the server wanted an octet beyond the end of the stream
  | opaque                     -- the model stops: handler outside its signature table
  | fuel (site : Nat)          -- the model ran out of fuel (0: the command loop, 1: an inner loop);
                               -- never happens; explicit, not a default
  | quotedCRLF                 -- ghost: a quoted string swallowed CR or LF
  | liberal                    -- ghost: CRLF() accepted " \r\n" or a lone LF
  | buffered (n : Nat)         -- ghost: a literal of n octets was buffered in memory
  | appendLit (n : Nat) (accepted : Bool)  -- ghost: APPEND saw a literal of n octets
  | depthAt (n : Nat)          -- ghost: a recursive parser (List callback, search key) runs n deep
  | dispatch (name : Bytes)    -- ghost: readCommand dispatched on this (upper-cased) command name
deriving DecidableEq, Repr

/-- which repairs are in effect -/
structure Fixes where
  refuse : Bool    -- a refused literal is reported as the decoder error, the literal stays open
  close : Bool     -- an unread non-synchronising literal closes the connection after the reply
  discard : Bool   -- DiscardLine notices a trailing non-synchronising literal header
  raw : Bool       -- over-long SASL/DONE lines are consumed entirely
  depth : Bool     -- NOT/OR nesting is bounded
  append : Bool    -- APPEND reports the missing CRLF after its literal
  litCrlf : Bool   -- opening a literal clears Decoder.crlf
deriving DecidableEq, Repr

def Fixes.all : Fixes := ⟨true, true, true, true, true, true, true⟩
def Fixes.none : Fixes := ⟨false, false, false, false, false, false, false⟩

structure Cfg where
  plus : Bool       -- the server advertises LITERAL+
  preauth : Bool
  fx : Fixes := Fixes.all
  appendFails : Bool := false   -- the backend's Append returns an error without reading the message
deriving DecidableEq, Repr

structure S where
  inp : Bytes
  pos : Nat := 0
  err : Option Err := none
  lit : Option Bool := none      -- an open literal (some nonSync)
  crlf : Bool := false
  tail : Bytes := []
  listDepth : Nat := 0
  mute : Bool := false           -- Legacy only: a handler that answers for itself returned nil without answering
  st : St := .notAuth
  evs : List Event := []         -- reversed
  roles : List Role := []        -- reversed
deriving Repr

/-! ## constants -/

def maxBuffered : Nat := 4096
def appendLimit : Nat := 104857600
def maxListDepth : Nat := 1000
def maxSearchKeyDepth : Nat := 1000
def int64Bound : Nat := 9223372036854775808

/-! ## state helpers -/

/-- Decoder.returnErr: the first error sticks -/
def S.fail (s : S) (e : Err) : S := if s.err.isSome then s else { s with err := some e }

def S.emit (s : S) (e : Event) : S := { s with evs := e :: s.evs }

/-- consume k octets in role r -/
def S.take (s : S) (k : Nat) (r : Role) : S :=
  let k := min k s.inp.length
  { s with inp := s.inp.drop k, pos := s.pos + k, roles := List.replicate k r ++ s.roles }

def S.sawEof (s : S) : S := (s.emit .eof).fail .eof

/-- ghost: a recursive parser was entered `cur` Go frames deep -/
def S.enter (s : S) (cur : Nat) : S := s.emit (.depthAt cur)

/-! ## character classes -/

/-- imapwire.IsAtomChar -/
def isAtomChar (c : Nat) : Bool :=
  !(c == 40 || c == 41 || c == 123 || c == 32 || c == 37 || c == 42 || c == 34 || c == 92 || c == 93)
  && 32 ≤ c && c != 127 && !(128 ≤ c && c ≤ 159)

def isDigit (c : Nat) : Bool := 48 ≤ c && c ≤ 57

def isKeyChar (c : Nat) : Bool := c == 42 || isAtomChar c

def upperByte (c : Nat) : Nat := if 97 ≤ c && c ≤ 122 then c - 32 else c
def upper (b : Bytes) : Bytes := b.map upperByte

def valOf (ds : Bytes) : Nat := ds.foldl (fun a d => a * 10 + (d - 48)) 0

/-! ## decoder primitives (decoder.go) -/

/-- readByte followed, where Go does so, by UnreadByte: the next octet, not consumed -/
def S.look (s : S) : Option Nat × S :=
  let s := { s with crlf := false }
  if s.lit.isSome then (none, s.fail .internal)
  else match s.inp with
    | [] => (none, s.sawEof)
    | b :: _ => (some b, s)

/-- acceptByte -/
def S.accept (s : S) (want : Nat) : Bool × S :=
  match s.look with
  | (some b, s) => if b == want then (true, s.take 1 .text) else (false, s)
  | (none, s) => (false, s)

/-- Decoder.Expect -/
def S.expect (s : S) (ok : Bool) : S := if ok then s else s.fail .expect

/-- Decoder.Func: the longest run of valid octets; fails when it is empty or runs into the end -/
def S.func (s : S) (valid : Nat → Bool) : Option Bytes × S :=
  let s := { s with crlf := false }
  if s.lit.isSome then (none, s.fail .internal)
  else
    let tok := s.inp.takeWhile valid
    let s' := s.take tok.length .text
    if s'.inp.isEmpty then (none, s'.sawEof)
    else if tok.isEmpty then (none, s')
    else (some tok, s')

def S.expectAtom (s : S) : Option Bytes × S :=
  match s.func isAtomChar with
  | (some a, s) => (some a, s)
  | (none, s) => (none, s.fail .expect)

/-- Decoder.SP -/
def S.sp (s : S) : Bool × S :=
  match s.accept 32 with
  | (true, s) =>
    match s.look with
    | (some b, s) => (b != 13 && b != 10, s)
    | (none, s) => (false, s)
  | (false, s) =>
    match s.look with
    | (some b, s) => (b == 40, s)
    | (none, s) => (false, s)

def S.expectSP (s : S) : Bool × S :=
  let (ok, s) := s.sp
  (ok, s.expect ok)

/-- Decoder.CRLF: optional SP, optional CR, LF -/
def S.crlfP (s : S) : Bool × S :=
  let (sp, s) := s.accept 32
  let (cr, s) := s.accept 13
  let (lf, s) := s.accept 10
  if lf then (true, { (if sp || !cr then s.emit .liberal else s) with crlf := true })
  else (false, s)

def S.expectCRLF (s : S) : Bool × S :=
  let (ok, s) := s.crlfP
  (ok, s.expect ok)

/-- the body of Decoder.Quoted after the opening quote: value and number of octets consumed -/
def quotedGo : Bytes → Bytes → Nat → Option (Bytes × Nat)
  | [], _, _ => none
  | c :: r, acc, n =>
    if c == 34 then some (acc.reverse, n + 1)
    else if c == 92 then
      match r with
      | [] => none
      | e :: r' => quotedGo r' (e :: acc) (n + 2)
    else quotedGo r (c :: acc) (n + 1)

def hasCRLF (b : Bytes) : Bool := b.any fun c => c == 13 || c == 10

/-- Decoder.Quoted -/
def S.quoted (s : S) : Option Bytes × S :=
  match s.accept 34 with
  | (false, s) => (none, s)
  | (true, s) =>
    match quotedGo s.inp [] 0 with
    | none => (none, (s.take s.inp.length .text).sawEof)
    | some (v, n) =>
      let s' := s.take n .text
      (some v, if hasCRLF (s.inp.take n) then s'.emit .quotedCRLF else s')

/-- Decoder.Number64 (numberStr + strconv.ParseInt) -/
def S.number64 (s : S) : Option Nat × S :=
  match s.func isDigit with
  | (some ds, s) => if valOf ds < int64Bound then (some (valOf ds), s) else (none, s)
  | (none, s) => (none, s)

/-- Decoder.LiteralReader: "{" number ["+"] "}" CRLF; opens the literal -/
def S.literalReader (fx : Fixes) (s : S) : Option (Nat × Bool) × S :=
  match s.accept 123 with
  | (false, s) => (none, s)
  | (true, s) =>
    match s.number64 with
    | (none, s) => (none, s.fail .expect)
    | (some n, s) =>
      let (ns, s) := s.accept 43
      let (cb, s) := s.accept 125
      if !cb then (none, s.fail .expect)
      else
        let (ok, s) := s.expectCRLF
        if !ok then (none, s)
        else (some (n, ns), { s with crlf := if fx.litCrlf then false else s.crlf, lit := some ns })

/-- Conn.acceptLiteral (conn.go): refuse, or answer "+" for a synchronising literal -/
def acceptLiteral (cfg : Cfg) (n : Nat) (nonSync : Bool) (s : S) : Option Err × S :=
  if nonSync && n > maxBuffered && !cfg.plus then (some .bad, s)
  else if nonSync then (none, s)
  else (none, s.emit (.cont s.pos))

/-- Conn.checkBufferedLiteral -/
def checkBufferedLiteral (cfg : Cfg) (n : Nat) (nonSync : Bool) (s : S) : Option Err × S :=
  if n > maxBuffered then (some .no, s) else acceptLiteral cfg n nonSync s

/-- read the payload of the open literal (io.Copy from the LimitReader): all of it, or what is
    left of the stream -/
def S.payload (s : S) (n : Nat) : Bytes × S :=
  let v := s.inp.take n
  let s' := { (s.take v.length .payload) with lit := none }
  (v, if v.length < n then s'.emit .eof else s')

/-- Decoder.Literal with CheckBufferedLiteralFunc = Conn.checkBufferedLiteral -/
def S.literal (cfg : Cfg) (s : S) : Option Bytes × S :=
  match s.literalReader cfg.fx with
  | (none, s) => (none, s)
  | (some (n, ns), s) =>
    match checkBufferedLiteral cfg n ns s with
    | (some e, s) =>
      if cfg.fx.refuse then (none, s.fail e)          -- the literal stays open
      else (none, { s with lit := none })             -- Legacy: lit.cancel(); return false
    | (none, s) =>
      let (v, s) := s.payload n
      (some v, s.emit (.buffered n))

/-- Decoder.ExpectAString -/
def S.astring (cfg : Cfg) (s : S) : Option Bytes × S :=
  match s.quoted with
  | (some v, s) => (some v, s)
  | (none, s) =>
    match s.literal cfg with
    | (some v, s) => (some v, s)
    | (none, s) =>
      -- a malformed or refused literal has set the decoder error: what follows is not an atom
      if s.err.isSome then (none, s) else s.expectAtom

def inboxName : Bytes := [73, 78, 66, 79, 88]

/-- the name ExpectMailbox hands to the backend: INBOX case-insensitively, else modified UTF-7
    decoded (and re-encoded as UTF-8, the Go string) -/
def mailboxName (v : Bytes) : Option Bytes :=
  if upper v == inboxName then some inboxName
  else (Utf7.decode v).map fun cps => cps.flatMap Utf7.utf8enc

/-- Decoder.ExpectMailbox -/
def S.mailbox (cfg : Cfg) (s : S) : Option Bytes × S :=
  match s.astring cfg with
  | (none, s) => (none, s)
  | (some v, s) =>
    match mailboxName v with
    | some m => (some m, s)
    | none => (none, s.fail .internal)

def notEol (c : Nat) : Bool := c != 13 && c != 10

/-- Decoder.Text: everything up to CR or LF; remembers it as the line's tail -/
def S.textP (s : S) : Option Bytes × S :=
  match s.func notEol with
  | (some t, s) => (some t, { s with tail := t })
  | (none, s) => (none, s)

/-- "{digits+}" at the end (decoder.go hasNonSyncLiteralSuffix), on the reversed line -/
def nonSyncSuffixRev : Bytes → Bool
  | 125 :: 43 :: r =>
    let ds := r.takeWhile isDigit
    !ds.isEmpty && (r.dropWhile isDigit).head? == some 123
  | _ => false

def nonSyncSuffix (line : Bytes) : Bool := nonSyncSuffixRev line.reverse

/-- Decoder.DiscardLine -/
def S.discardLine (fx : Fixes) (s : S) : S :=
  if s.crlf then s
  else
    let (_, s) := s.textP
    let (ok, s) := s.crlfP
    if fx.discard && ok && nonSyncSuffix s.tail then { s with lit := some true } else s

/-- Decoder.UnreadNonSyncLiteral -/
def S.unreadNonSync (s : S) : Bool := s.lit == some true

/-! ## Decoder.List and the recursive search-key parser

`cur` is the ghost recursion depth (number of nested Go calls of List callbacks / readSearchKey
above this one); `fuel` bounds the Lean recursion and is never exhausted (`Err`-free explicit
event `fuel`). -/

inductive KeyKind where
  | leaf | not_ | or_ | other
deriving DecidableEq, Repr

/-! command and key names as explicit octet lists (kernel-friendly) -/
def k_APPEND : Bytes := [65, 80, 80, 69, 78, 68]
def k_AUTHENTICATE : Bytes := [65, 85, 84, 72, 69, 78, 84, 73, 67, 65, 84, 69]
def k_CAPABILITY : Bytes := [67, 65, 80, 65, 66, 73, 76, 73, 84, 89]
def k_CHARSET : Bytes := [67, 72, 65, 82, 83, 69, 84]
def k_CHECK : Bytes := [67, 72, 69, 67, 75]
def k_CLOSE : Bytes := [67, 76, 79, 83, 69]
def k_COPY : Bytes := [67, 79, 80, 89]
def k_CREATE : Bytes := [67, 82, 69, 65, 84, 69]
def k_DELETE : Bytes := [68, 69, 76, 69, 84, 69]
def k_DONE : Bytes := [68, 79, 78, 69]
def k_ENABLE : Bytes := [69, 78, 65, 66, 76, 69]
def k_EXAMINE : Bytes := [69, 88, 65, 77, 73, 78, 69]
def k_EXPUNGE : Bytes := [69, 88, 80, 85, 78, 71, 69]
def k_FETCH : Bytes := [70, 69, 84, 67, 72]
def k_IDLE : Bytes := [73, 68, 76, 69]
def k_LIST : Bytes := [76, 73, 83, 84]
def k_LOGIN : Bytes := [76, 79, 71, 73, 78]
def k_LOGOUT : Bytes := [76, 79, 71, 79, 85, 84]
def k_LSUB : Bytes := [76, 83, 85, 66]
def k_MOVE : Bytes := [77, 79, 86, 69]
def k_NAMESPACE : Bytes := [78, 65, 77, 69, 83, 80, 65, 67, 69]
def k_NOOP : Bytes := [78, 79, 79, 80]
def k_NOT : Bytes := [78, 79, 84]
def k_OR : Bytes := [79, 82]
def k_PLAIN : Bytes := [80, 76, 65, 73, 78]
def k_RENAME : Bytes := [82, 69, 78, 65, 77, 69]
def k_RETURN : Bytes := [82, 69, 84, 85, 82, 78]
def k_SEARCH : Bytes := [83, 69, 65, 82, 67, 72]
def k_SELECT : Bytes := [83, 69, 76, 69, 67, 84]
def k_STARTTLS : Bytes := [83, 84, 65, 82, 84, 84, 76, 83]
def k_STATUS : Bytes := [83, 84, 65, 84, 85, 83]
def k_STORE : Bytes := [83, 84, 79, 82, 69]
def k_SUBSCRIBE : Bytes := [83, 85, 66, 83, 67, 82, 73, 66, 69]
def k_UID : Bytes := [85, 73, 68]
def k_UID_ : Bytes := [85, 73, 68, 32]
def k_UID_COPY : Bytes := [85, 73, 68, 32, 67, 79, 80, 89]
def k_UID_EXPUNGE : Bytes := [85, 73, 68, 32, 69, 88, 80, 85, 78, 71, 69]
def k_UID_FETCH : Bytes := [85, 73, 68, 32, 70, 69, 84, 67, 72]
def k_UID_MOVE : Bytes := [85, 73, 68, 32, 77, 79, 86, 69]
def k_UID_SEARCH : Bytes := [85, 73, 68, 32, 83, 69, 65, 82, 67, 72]
def k_UID_STORE : Bytes := [85, 73, 68, 32, 83, 84, 79, 82, 69]
def k_UNAUTHENTICATE : Bytes := [85, 78, 65, 85, 84, 72, 69, 78, 84, 73, 67, 65, 84, 69]
def k_UNSELECT : Bytes := [85, 78, 83, 69, 76, 69, 67, 84]
def k_UNSUBSCRIBE : Bytes := [85, 78, 83, 85, 66, 83, 67, 82, 73, 66, 69]

def leafKeys : List Bytes :=
  [[65, 76, 76], [65, 78, 83, 87, 69, 82, 69, 68], [68, 69, 76, 69, 84, 69, 68], [68, 82, 65, 70, 84], [70, 76, 65, 71, 71, 69, 68], [82, 69, 67, 69, 78, 84], [83, 69, 69, 78], [85, 78, 65, 78, 83, 87, 69, 82, 69, 68], [85, 78, 68, 69, 76, 69, 84, 69, 68], [85, 78, 68, 82, 65, 70, 84], [85, 78, 70, 76, 65, 71, 71, 69, 68], [85, 78, 83, 69, 69, 78], [78, 69, 87], [79, 76, 68], [36]]

def keyKind (k : Bytes) : KeyKind :=
  let u := upper k
  if u == k_NOT then .not_
  else if u == k_OR then .or_
  else if leafKeys.contains u then .leaf
  else .other

mutual
/-- imapserver/search.go readSearchKey(Depth): an atom key, or a parenthesised list of keys -/
def searchKey (cfg : Cfg) : Nat → Nat → Nat → S → Option Err × S
  | 0, _, _, s => (some .internal, s.emit (.fuel 1))
  | fuel + 1, d, cur, s =>
    let s := s.enter cur
    match s.func isKeyChar with
    | (some k, s) => searchKeyAtom cfg fuel d cur k s
    | (none, s) =>
      -- dec.ExpectList(func() error { return readSearchKey(criteria, dec) })
      match s.accept 40 with
      | (false, s) => let s := s.expect false; (s.err, s)
      | (true, s) =>
        match s.accept 41 with
        | (true, s) => (none, s)
        | (false, s) =>
          let s := { s with listDepth := s.listDepth + 1 }
          if s.listDepth ≥ maxListDepth then (some .internal, { s with listDepth := s.listDepth - 1 })
          else
            let (e, s) := searchList cfg fuel d (cur + 1) s
            (e, { s with listDepth := s.listDepth - 1 })

/-- the loop of Decoder.List around readSearchKey -/
def searchList (cfg : Cfg) : Nat → Nat → Nat → S → Option Err × S
  | 0, _, _, s => (some .internal, s.emit (.fuel 1))
  | fuel + 1, d, cur, s =>
    match searchKey cfg fuel d cur s with
    | (some e, s) => (some e, s)
    | (none, s) =>
      match s.accept 41 with
      | (true, s) => (none, s)
      | (false, s) =>
        match s.expectSP with
        | (false, s) => (s.err, s)
        | (true, s) => searchList cfg fuel d cur s

/-- readSearchKeyWithAtom(Depth) over the modelled keys -/
def searchKeyAtom (cfg : Cfg) : Nat → Nat → Nat → Bytes → S → Option Err × S
  | 0, _, _, _, s => (some .internal, s.emit (.fuel 1))
  | fuel + 1, d, cur, k, s =>
    match keyKind k with
    | .leaf => (none, s)
    | .other => (some .internal, s.emit .opaque)
    | .not_ =>
      if cfg.fx.depth && d ≥ maxSearchKeyDepth then (some .bad, s)
      else
        match s.expectSP with
        | (false, s) => (s.err, s)
        | (true, s) => searchKey cfg fuel (d + 1) (cur + 1) s
    | .or_ =>
      if cfg.fx.depth && d ≥ maxSearchKeyDepth then (some .bad, s)
      else
        match s.expectSP with
        | (false, s) => (s.err, s)
        | (true, s) =>
          match searchKey cfg fuel (d + 1) (cur + 1) s with
          | (some e, s) => (some e, s)
          | (none, s) =>
            match s.expectSP with
            | (false, s) => (s.err, s)
            | (true, s) => searchKey cfg fuel (d + 1) (cur + 1) s
end

/-- the flag list of APPEND: Decoder.List(ExpectFlag); not recursive -/
def flagItems : Nat → S → Option Err × S
  | 0, s => (some .internal, s.emit (.fuel 1))
  | fuel + 1, s =>
    -- internal.ExpectFlag
    let (sys, s) := s.accept 92
    let (star, s) := if sys then s.accept 42 else (false, s)
    let (e, s) :=
      if star then ((none : Option Err), s)
      else match s.expectAtom with
        | (some _, s) => (none, s)
        | (none, s) => (s.err, s)
    match e with
    | some e => (some e, s)
    | none =>
      match s.accept 41 with
      | (true, s) => (none, s)
      | (false, s) =>
        match s.expectSP with
        | (false, s) => (s.err, s)
        | (true, s) => flagItems fuel s

/-- Decoder.List(ExpectFlag): (isList, err) -/
def S.flagList (s : S) : Bool × Option Err × S :=
  match s.accept 40 with
  | (false, s) => (false, none, s)
  | (true, s) =>
    match s.accept 41 with
    | (true, s) => (true, none, s)
    | (false, s) =>
      let s := { s with listDepth := s.listDepth + 1 }
      let s := s.enter 1
      let (e, s) := flagItems (s.inp.length + 1) s
      (true, e, { s with listDepth := s.listDepth - 1 })

/-! ## raw lines (bufio.Reader.ReadLine, Conn.readLine) -/

/-- a raw line: content (without the line end), whether it was longer than the 4096-octet
    buffer, the number of octets consumed, and whether the stream ended inside it; none when
    nothing usable came before the end of the stream.
    ReadLine: the line ends at LF, one CR before it is dropped; isPrefix when no LF is found
    within 4096 octets; at the end of the stream a non-empty partial line is returned as a line. -/
def rawLine (fx : Fixes) (inp : Bytes) : Option (Bytes × Bool × Nat × Bool) :=
  let body := inp.takeWhile (· != 10)
  if body.length == inp.length then
    -- no LF: the read blocks; when the client leaves, what is there counts as a line
    if body.isEmpty || body.length ≥ 4096 then none else some (body, false, body.length, true)
  else if body.length < 4096 then
    let content := if body.getLast? == some 13 then body.dropLast else body
    some (content, false, body.length + 1, false)
  else if fx.raw then some ([], true, body.length + 1, false)       -- the whole line is consumed
  else
    -- Legacy: only the first buffer-full is consumed (one octet less when it ends in CR)
    let first := body.take 4096
    some ([], true, if first.getLast? == some 13 then 4095 else 4096, false)

/-! ## standard base64 (encoding/base64 StdEncoding.DecodeString, non-strict) and SASL PLAIN -/

def b64v (c : Nat) : Option Nat :=
  if 65 ≤ c && c ≤ 90 then some (c - 65)
  else if 97 ≤ c && c ≤ 122 then some (c - 71)
  else if 48 ≤ c && c ≤ 57 then some (c + 4)
  else if c == 43 then some 62
  else if c == 47 then some 63
  else none

def b64std : Bytes → Option Bytes
  | [] => some []
  | [c0, c1, 61, 61] => do
    let a ← b64v c0; let b ← b64v c1
    pure [a * 4 + b / 16]
  | [c0, c1, c2, 61] => do
    let a ← b64v c0; let b ← b64v c1; let c ← b64v c2
    pure [a * 4 + b / 16, (b % 16) * 16 + c / 4]
  | c0 :: c1 :: c2 :: c3 :: r => do
    let a ← b64v c0; let b ← b64v c1; let c ← b64v c2; let d ← b64v c3
    let t ← b64std r
    pure ((a * 4 + b / 16) :: ((b % 16) * 16 + c / 4) :: ((c % 4) * 64 + d) :: t)
  | _ => none

/-- internal.DecodeSASL: "=" is the empty response; CR and LF are ignored by the base64 package -/
def decodeSASL (line : Bytes) : Option Bytes :=
  if line == [61] then some [] else b64std (line.filter fun c => c != 13 && c != 10)

def splitZero : Bytes → List Bytes
  | [] => [[]]
  | c :: r =>
    match splitZero r with
    | [] => [[]]
    | h :: t => if c == 0 then [] :: h :: t else (c :: h) :: t

/-- go-sasl plainServer.Next + the authenticator of handleAuthenticate: the Login call or the
    error class -/
def plainNext (resp : Bytes) : Except Err Call :=
  match splitZero resp with
  | [identity, username, password] =>
    if !identity.isEmpty && identity != username then .error .no
    else .ok ⟨.login, [username, password]⟩
  | _ => .error .internal

/-! ## handlers -/

def checkAuth (s : S) : Bool := s.st == .auth || s.st == .selected

def call (fn : Fn) (args : List Bytes := []) : Event := .exec ⟨fn, args⟩

/-- handlers that take no argument: ExpectCRLF, then `body` -/
def noArgs (s : S) (body : S → Option Err × S) : Option Err × S :=
  match s.expectCRLF with
  | (false, s) => (s.err, s)
  | (true, s) => body s

/-- handlers of the form SP mailbox CRLF -/
def oneMailbox (cfg : Cfg) (s : S) (body : Bytes → S → Option Err × S) : Option Err × S :=
  match s.expectSP with
  | (false, s) => (s.err, s)
  | (true, s) =>
    match s.mailbox cfg with
    | (none, s) => (s.err, s)
    | (some m, s) =>
      match s.expectCRLF with
      | (false, s) => (s.err, s)
      | (true, s) => body m s

def needAuth (s : S) (k : S → Option Err × S) : Option Err × S :=
  if checkAuth s then k s else (some .bad, s)

/-- handleLogin -/
def hLogin (cfg : Cfg) (s : S) : Option Err × S :=
  match s.expectSP with
  | (false, s) => (s.err, s)
  | (true, s) =>
    match s.astring cfg with
    | (none, s) => (s.err, s)
    | (some u, s) =>
      match s.expectSP with
      | (false, s) => (s.err, s)
      | (true, s) =>
        match s.astring cfg with
        | (none, s) => (s.err, s)
        | (some p, s) =>
          match s.expectCRLF with
          | (false, s) => (s.err, s)
          | (true, s) =>
            if s.st != .notAuth then (some .bad, s)
            else (none, { (s.emit (call .login [u, p])) with st := .auth })

/-- handleSelect -/
def hSelect (cfg : Cfg) (readOnly : Bool) (s : S) : Option Err × S :=
  oneMailbox cfg s fun m s =>
    needAuth s fun s =>
      let s := if s.st == .selected then { (s.emit (call .unselect)) with st := .auth } else s
      (none, { (s.emit (call .select [m, if readOnly then [49] else [48]])) with st := .selected })

/-- handleCreate (name only; parameters are outside the model) -/
def hCreate (cfg : Cfg) (s : S) : Option Err × S :=
  match s.expectSP with
  | (false, s) => (s.err, s)
  | (true, s) =>
    match s.mailbox cfg with
    | (none, s) => (s.err, s)
    | (some m, s) =>
      match s.sp with
      | (true, s) => (some .internal, s.emit .opaque)
      | (false, s) =>
        match s.expectCRLF with
        | (false, s) => (s.err, s)
        | (true, s) => needAuth s fun s => (none, s.emit (call .create [m]))

def hRename (cfg : Cfg) (s : S) : Option Err × S :=
  match s.expectSP with
  | (false, s) => (s.err, s)
  | (true, s) =>
    match s.mailbox cfg with
    | (none, s) => (s.err, s)
    | (some a, s) =>
      match s.expectSP with
      | (false, s) => (s.err, s)
      | (true, s) =>
        match s.mailbox cfg with
        | (none, s) => (s.err, s)
        | (some b, s) =>
          match s.expectCRLF with
          | (false, s) => (s.err, s)
          | (true, s) => needAuth s fun s => (none, s.emit (call .rename [a, b]))

/-- handleEnable: (SP atom)* CRLF -/
def enableArgs : Nat → S → Option Err × S
  | 0, s => (some .internal, s.emit (.fuel 1))
  | fuel + 1, s =>
    match s.sp with
    | (false, s) =>
      match s.expectCRLF with
      | (false, s) => (s.err, s)
      | (true, s) => needAuth s fun s => (none, s)
    | (true, s) =>
      match s.expectAtom with
      | (none, s) => (s.err, s)
      | (some _, s) => enableArgs fuel s

/-- the literal of APPEND (append.go:72-107): the size limit and acceptLiteral come before any
    payload octet is read -/
def appendLiteral (cfg : Cfg) (m : Bytes) (s : S) : Option Err × S :=
  match s.literalReader cfg.fx with
  | (none, s) => let s := s.expect false; (s.err, s)
  | (some (n, ns), s) =>
    if n > appendLimit then (some .no, s.emit (.appendLit n false))
    else
      match acceptLiteral cfg n ns s with
      | (some e, s) => (some e, s.emit (.appendLit n false))
      | (none, s) =>
        let s := s.emit (.appendLit n true)
        let (v, s) := s.payload n
        if !checkAuth s then
          let (_, s) := s.crlfP
          (some .bad, s)
        else
          -- session.Append, then the handler drains what the backend left of the literal
          let s := s.emit (call .append [m, if cfg.appendFails then [] else v])
          match s.expectCRLF with
          | (false, s) => if cfg.fx.append then (s.err, s) else (none, { s with mute := true })
          | (true, s) => if cfg.appendFails then (some .no, s) else (none, s)

/-- handleAppend (append.go) -/
def hAppend (cfg : Cfg) (s : S) : Option Err × S :=
  match s.expectSP with
  | (false, s) => (s.err, s)
  | (true, s) =>
    match s.mailbox cfg with
    | (none, s) => (s.err, s)
    | (some m, s) =>
      match s.expectSP with
      | (false, s) => (s.err, s)
      | (true, s) =>
        match s.flagList with
        | (_, some e, s) => (some e, s)
        | (hasFlags, none, s) =>
          let (okSp, s) := if hasFlags then s.expectSP else (true, s)
          if !okSp then (s.err, s)
          else
            -- internal.DecodeDateTime starts with Quoted; the optional atom (UTF8) and "~"
            match s.look with
            | (none, s) => (s.err, s)
            | (some b, s) =>
              if b == 34 || isAtomChar b || b == 126 then (some .internal, s.emit .opaque)
              else
                appendLiteral cfg m s

/-- the SASL exchange of handleAuthenticate for PLAIN: `resp` is the response in hand -/
def plainFinish (resp : Bytes) (s : S) : Option Err × S :=
  match plainNext resp with
  | .error e => (some e, s)
  | .ok c => (none, { (s.emit (.exec c)) with st := .auth })

/-- handleAuthenticate -/
def hAuthenticate (cfg : Cfg) (s : S) : Option Err × S :=
  match s.expectSP with
  | (false, s) => (s.err, s)
  | (true, s) =>
    match s.expectAtom with
    | (none, s) => (s.err, s)
    | (some mech, s) =>
      let (hasIR, s) := s.sp
      let (ir, e, s) : Option Bytes × Option Err × S :=
        if hasIR then
          match s.textP with
          | (none, s) => let s := s.expect false; (none, s.err, s)
          | (some t, s) =>
            match decodeSASL t with
            | none => (none, some .internal, s)
            | some r => (some r, none, s)
        else (none, none, s)
      match e with
      | some e => (some e, s)
      | none =>
        match s.expectCRLF with
        | (false, s) => (s.err, s)
        | (true, s) =>
          if s.st != .notAuth then (some .bad, s)
          else if upper mech != k_PLAIN then (some .no, s)
          else
            match ir with
            | some r => plainFinish r s
            | none =>
              -- "+ =" and one raw line
              let s := s.emit (.cont s.pos)
              match rawLine cfg.fx s.inp with
              | none => (some .eof, (s.take s.inp.length .line).emit .eof)
              | some (line, tooLong, k, atEnd) =>
                let s := s.take k .line
                let s := if atEnd then s.emit .eof else s
                if tooLong then (some .internal, s)
                else if line == [42] then (some .bad, s)
                else
                  match decodeSASL line with
                  | none => (some .bad, s)
                  | some r => plainFinish r s

/-- handleIdle -/
def hIdle (cfg : Cfg) (s : S) : Option Err × S :=
  noArgs s fun s =>
    needAuth s fun s =>
      let s := (s.emit (.cont s.pos)).emit (call .idle)
      match rawLine cfg.fx s.inp with
      | none => (none, (s.take s.inp.length .line).emit .eof)      -- err == io.EOF: return nil
      | some (line, tooLong, k, atEnd) =>
        let s := s.take k .line
        let s := if atEnd then s.emit .eof else s
        if tooLong || line != k_DONE then (some .bad, s) else (none, s)

/-- handleSearch over the modelled keys -/
def searchKeys (cfg : Cfg) : Nat → S → Option Err × S
  | 0, s => (some .internal, s.emit (.fuel 1))
  | fuel + 1, s =>
    match searchKey cfg (2 * s.inp.length + 8) 0 1 s with
    | (some e, s) => (some e, s)
    | (none, s) =>
      match s.sp with
      | (true, s) => searchKeys cfg fuel s
      | (false, s) =>
        match s.expectCRLF with
        | (false, s) => (s.err, s)
        | (true, s) =>
          if s.st != .selected then (some .bad, s) else (none, s.emit (call .search))

def hSearch (cfg : Cfg) (s : S) : Option Err × S :=
  match s.expectSP with
  | (false, s) => (s.err, s)
  | (true, s) =>
    -- RETURN / CHARSET prefixes are outside the model
    let k := upper (s.inp.takeWhile isKeyChar)
    if k == k_RETURN || k == k_CHARSET then (some .internal, s.emit .opaque)
    else searchKeys cfg (s.inp.length + 1) s

inductive Handler where
  | run (h : S → Option Err × S)
  | unknown
  | opaque

def hLogout (s : S) : Option Err × S := noArgs s fun s => (none, { (s.emit .bye) with st := .logout })
def hNoop (s : S) : Option Err × S := noArgs s fun s => (none, s)
def hStartTLS (s : S) : Option Err × S := noArgs s fun s => (some .no, s)
def hUnauthenticate (s : S) : Option Err × S := noArgs s fun s =>
  needAuth s fun s => (none, { (s.emit (call .unauthenticate)) with st := .notAuth })
def hNamespace (s : S) : Option Err × S := noArgs s fun s => needAuth s fun s => (none, s.emit (call .namespace))
def hUnselect (expunge : Bool) (s : S) : Option Err × S := noArgs s fun s =>
  if s.st != .selected then (some .bad, s)
  else
    let s := if expunge then s.emit (call .expunge) else s
    (none, { (s.emit (call .unselect)) with st := .auth })
def hExpunge (s : S) : Option Err × S := noArgs s fun s =>
  if s.st != .selected then (some .bad, s) else (none, s.emit (call .expunge))
def hEnable (s : S) : Option Err × S := enableArgs (s.inp.length + 1) s
def hMailbox (cfg : Cfg) (fn : Fn) (s : S) : Option Err × S :=
  oneMailbox cfg s fun m s => needAuth s fun s => (none, s.emit (call fn [m]))

/-- the switch of Conn.readCommand (conn.go:205-281) -/
def handlerTable (cfg : Cfg) : List (Bytes × Handler) :=
  [ (k_NOOP, .run hNoop), (k_CHECK, .run hNoop), (k_CAPABILITY, .run hNoop),
    (k_LOGOUT, .run hLogout), (k_STARTTLS, .run hStartTLS), (k_UNAUTHENTICATE, .run hUnauthenticate),
    (k_NAMESPACE, .run hNamespace), (k_CLOSE, .run (hUnselect true)), (k_UNSELECT, .run (hUnselect false)),
    (k_EXPUNGE, .run hExpunge), (k_ENABLE, .run hEnable), (k_LOGIN, .run (hLogin cfg)),
    (k_SELECT, .run (hSelect cfg false)), (k_EXAMINE, .run (hSelect cfg true)), (k_CREATE, .run (hCreate cfg)),
    (k_DELETE, .run (hMailbox cfg .delete)), (k_SUBSCRIBE, .run (hMailbox cfg .subscribe)),
    (k_UNSUBSCRIBE, .run (hMailbox cfg .unsubscribe)), (k_RENAME, .run (hRename cfg)),
    (k_APPEND, .run (hAppend cfg)), (k_AUTHENTICATE, .run (hAuthenticate cfg)), (k_IDLE, .run (hIdle cfg)),
    (k_SEARCH, .run (hSearch cfg)), (k_UID_SEARCH, .run (hSearch cfg)),
    (k_STATUS, .opaque), (k_LIST, .opaque), (k_LSUB, .opaque), (k_FETCH, .opaque), (k_UID_FETCH, .opaque),
    (k_STORE, .opaque), (k_UID_STORE, .opaque), (k_COPY, .opaque), (k_UID_COPY, .opaque),
    (k_MOVE, .opaque), (k_UID_MOVE, .opaque), (k_UID_EXPUNGE, .opaque) ]

def handlerOf (cfg : Cfg) (name : Bytes) : Handler :=
  match (handlerTable cfg).lookup name with
  | some h => h
  | none => .unknown

/-! ## Conn.readCommand and Conn.serve -/

/-- a fresh decoder for every command (conn.go:169) -/
def S.reset (s : S) : S :=
  { s with err := none, lit := none, crlf := false, tail := [], listDepth := 0, mute := false }

/-- `UID` SP sub-command (conn.go:193-201) -/
def uidName (s : S) : Option Bytes × S :=
  match s.expectSP with
  | (false, s) => (none, s)
  | (true, s) =>
    match s.expectAtom with
    | (none, s) => (none, s)
    | (some sub, s) => (some (k_UID_ ++ upper sub), s)

/-- tag SP name [SP sub-name] (conn.go:187-201): none when the line is unusable, in which case
    readCommand returns an error and the connection is dropped without a reply -/
def cmdHeader (s : S) : Option (Bytes × Bytes) × S :=
  match s.expectAtom with
  | (none, s) => (none, s)
  | (some tag, s) =>
    if tag.contains 43 then (none, s.fail .expect)       -- "+" is not allowed in a tag
    else
      match s.expectSP with
      | (false, s) => (none, s)
      | (true, s) =>
        match s.expectAtom with
        | (none, s) => (none, s)
        | (some name0, s) =>
          if upper name0 == k_UID then
            match uidName s with
            | (none, s) => (none, s)
            | (some name, s) => (some (tag, name), s)
          else (some (tag, upper name0), s)

/-- run the handler: (the unknown-command BYE is pending, the handler's error, the state) -/
def runHandler (name : Bytes) (h : Handler) (s : S) : Bool × Option Err × S :=
  let s := s.emit (.dispatch name)
  match h with
  | .run f => let (e, s) := f s; (false, e, s)
  | _ =>
    -- unknown command: BAD; before authentication the connection is dropped after the reply
    if s.st == .notAuth then (true, some .bad, { s with st := .logout })
    else (false, some .bad, s)

/-- the tail of readCommand (conn.go:283-314): DiscardLine, the unread-literal check, one tagged
    reply (a handler that answers for itself has already written its OK: same place), BYE -/
def finishCommand (cfg : Cfg) (tag : Bytes) (byeUnknown : Bool) (e : Option Err) (s : S) : S :=
  let s := s.discardLine cfg.fx
  let byeLit := cfg.fx.close && s.unreadNonSync && s.st != .logout
  let s := if byeLit then { s with st := .logout } else s
  let s := if !cfg.fx.append && s.mute then s          -- Legacy: APPEND returned nil, nothing is written
           else s.emit (.tagged tag (match e with | none => .ok | some e => e.cls))
  let s := if byeLit then s.emit .bye else s
  if byeUnknown then s.emit .bye else s

/-- one command; returns the state and whether the connection goes on -/
def readCommand (cfg : Cfg) (s0 : S) : Bool × S :=
  match cmdHeader s0.reset with
  | (none, s) => (false, s)
  | (some (tag, name), s) =>
    match handlerOf cfg name with
    | .opaque => (false, s.emit .opaque)
    | h =>
      let (byeUnknown, e, s) := runHandler name h s
      if s.evs.head? == some .opaque then (false, s)
      else (true, finishCommand cfg tag byeUnknown e s)

/-- the loop of Conn.serve after the greeting -/
def serveLoop (cfg : Cfg) : Nat → S → S
  | 0, s => s.emit (.fuel 0)
  | fuel + 1, s =>
    if s.st == .logout then s.emit .close
    else if s.evs.head? == some .opaque then s
    else
      match s.inp with
      | [] => (s.emit .eof).emit .close          -- dec.EOF()
      | _ :: _ =>
        let (go, s) := readCommand cfg s
        if s.evs.head? == some .opaque then s
        else if go then serveLoop cfg fuel s
        else s.emit .close

def initial (cfg : Cfg) (inp : Bytes) : S :=
  { inp := inp, st := if cfg.preauth then .auth else .notAuth }

def run (cfg : Cfg) (inp : Bytes) : S := serveLoop cfg (inp.length + 2) (initial cfg inp)

/-- what the server does with the client stream `inp` (the client then closes) -/
def serve (cfg : Cfg) (inp : Bytes) : List Event := (run cfg inp).evs.reverse

def rolesOf (cfg : Cfg) (inp : Bytes) : List Role := (run cfg inp).roles.reverse

/-- the deepest recursion of the recursive parsers during the run -/
def depthOf (cfg : Cfg) (inp : Bytes) : Nat :=
  (serve cfg inp).foldl (fun m e => match e with | .depthAt n => max m n | _ => m) 0

/-- octets of an ASCII string (drivers and examples; not used by the model itself) -/
def strBytes (s : String) : Bytes := s.toUTF8.toList.map (·.toNat)

namespace Legacy
/-- the server before the repairs recorded in known_findings.json -/
def serve (plus preauth : Bool) (inp : Bytes) : List Event :=
  Framing.serve { plus := plus, preauth := preauth, fx := Fixes.none } inp
end Legacy

end GoImap.Framing
