/-
  Model of the STARTTLS boundary (C17). Core Lean only.

  The socket delivers bytes in *segments* (one segment = one `Read` of the `bufio.Reader` that sits
  between the connection and the IMAP decoder). The model is a byte router with an explicit reader
  buffer: while in plaintext mode the IMAP parser consumes bytes line by line; when the handler of a
  line says `switch` (server: `handleStartTLS` accepted the command, imapserver/starttls.go:18-77;
  client: the tagged OK of STARTTLS was read, imapclient/client.go:623-626 → `upgradeStartTLS`,
  imapclient/starttls.go:37-59) the rest of the current segment is what `br.Buffered()` holds:

    * `Handover.drain` — what go-imap does on both sides: `io.CopyN(&buf, c.br, c.br.Buffered())`,
      then `tls.Server/Client(startTLSConn{conn, MultiReader(&buf, conn)})` and `c.br.Reset(tlsConn)`:
      the buffered bytes and everything read later are the TLS layer's input.
    * `Handover.keep`  — the CVE-2011-0411 shape (NOT go-imap's behaviour; kept so that the switch
      theorems have a machine-checked non-example): the reader is not drained, the parser goes on
      consuming the buffered plaintext while the connection already counts as protected (`Mode.held`);
      only bytes read from the socket afterwards reach TLS.

  `crypto/tls` is below the modelled interface: `tlsAccepts` states the assumed behaviour (a handshake
  succeeds only on an input that starts with the peer's genuine handshake, i.e. when nothing was injected
  in front of it); the harness observes it on every case.
-/
import GoImap.Util
namespace GoImap.StartTLS
open GoImap

inductive Mode where
  | plain   -- the IMAP parser reads the socket
  | held    -- (Handover.keep only) TLS counts as active, the parser still consumes buffered plaintext
  | tls     -- every byte read from the socket is input of the TLS layer
  | closed  -- the handler closed the connection; remaining bytes are never read
deriving DecidableEq, Repr

inductive Handover where
  | drain
  | keep
deriving DecidableEq, Repr

inductive Act where
  | cont | switch | stop
deriving DecidableEq, Repr

/-- handler of one complete line (terminating LF included): new protocol state, events, what next -/
abbrev Exec (σ ε : Type) := σ → Bytes → σ × List ε × Act

structure RSt (σ ε : Type) where
  mode : Mode
  st : σ
  cur : Bytes            -- bytes of the line being read
  off : Nat              -- socket bytes seen so far
  plain : Bytes          -- bytes the IMAP parser consumed in plaintext mode
  tls : Bytes            -- bytes handed to the TLS layer
  held : Bytes           -- (keep only) plaintext bytes the IMAP parser consumed after the switch
  evs : List (Nat × ε)   -- events, each with the socket offset of the byte that completed its line

def RSt.init {σ ε : Type} (s : σ) : RSt σ ε := ⟨.plain, s, [], 0, [], [], [], []⟩

def nextMode (h : Handover) (m : Mode) : Act → Mode
  | .cont => m
  | .stop => .closed
  | .switch => match h with
    | .drain => .tls
    | .keep => .held

/-- one byte taken from the socket -/
def stepByte {σ ε : Type} (h : Handover) (exec : Exec σ ε) (s : RSt σ ε) (b : UInt8) : RSt σ ε :=
  match s.mode with
  | .tls => { s with off := s.off + 1, tls := s.tls ++ [b] }
  | .closed => { s with off := s.off + 1 }
  | .plain =>
    if b = 10 then
      let r := exec s.st (s.cur ++ [b])
      { mode := nextMode h .plain r.2.2, st := r.1, cur := [], off := s.off + 1,
        plain := s.plain ++ [b], tls := s.tls, held := s.held,
        evs := s.evs ++ r.2.1.map (fun e => (s.off, e)) }
    else { s with cur := s.cur ++ [b], off := s.off + 1, plain := s.plain ++ [b] }
  | .held =>
    if b = 10 then
      let r := exec s.st (s.cur ++ [b])
      { mode := nextMode h .held r.2.2, st := r.1, cur := [], off := s.off + 1,
        plain := s.plain, tls := s.tls, held := s.held ++ [b],
        evs := s.evs ++ r.2.1.map (fun e => (s.off, e)) }
    else { s with cur := s.cur ++ [b], off := s.off + 1, held := s.held ++ [b] }

def scan {σ ε : Type} (h : Handover) (exec : Exec σ ε) (s : RSt σ ε) (bs : Bytes) : RSt σ ε :=
  bs.foldl (stepByte h exec) s

/-- the reader's buffer is exhausted: whatever is read next comes from the (now TLS) connection -/
def endSeg {σ ε : Type} (s : RSt σ ε) : RSt σ ε :=
  match s.mode with
  | .held => { s with mode := .tls }
  | _ => s

def feedSeg {σ ε : Type} (h : Handover) (exec : Exec σ ε) (s : RSt σ ε) (seg : Bytes) : RSt σ ε :=
  endSeg (scan h exec s seg)

/-- the two-mode byte router over a segmented input -/
def route {σ ε : Type} (h : Handover) (exec : Exec σ ε) (s : RSt σ ε) (segs : List Bytes) : RSt σ ε :=
  segs.foldl (feedSeg h exec) s

/-- assumed behaviour of crypto/tls (observed by the tie, not proved): the handshake completes only
    if the peer really performs one and no foreign byte precedes it in the TLS layer's input -/
def tlsAccepts (injected : Bytes) (peerHandshakes : Bool) : Bool :=
  peerHandshakes && injected.isEmpty

/-! ## lexing shared by both sides -/

def upper (b : UInt8) : UInt8 := if 97 ≤ b ∧ b ≤ 122 then b - 32 else b

/-- strip LF and one CR in front of it (imapwire Decoder.CRLF accepts a lone LF) -/
def stripEOL (line : Bytes) : Bytes :=
  match line.reverse with
  | 10 :: 13 :: r => r.reverse
  | 10 :: r => r.reverse
  | _ => line

def splitSpAux (cur : Bytes) : Bytes → List Bytes
  | [] => [cur]
  | b :: r => if b = 32 then cur :: splitSpAux [] r else splitSpAux (cur ++ [b]) r

/-- split on single spaces -/
def splitSp (l : Bytes) : List Bytes := splitSpAux [] l

def decimal? (l : Bytes) : Option Nat :=
  if l.isEmpty then none else
  l.foldl (fun (acc : Option Nat) (b : UInt8) => match acc with
    | none => none
    | some n => if 48 ≤ b ∧ b ≤ 57 then some (n * 10 + (b.toNat - 48)) else none) (some 0)

-- keywords (ASCII)
def kNOOP : Bytes := [78, 79, 79, 80]
def kCAPABILITY : Bytes := [67, 65, 80, 65, 66, 73, 76, 73, 84, 89]
def kSTARTTLS : Bytes := [83, 84, 65, 82, 84, 84, 76, 83]
def kLOGIN : Bytes := [76, 79, 71, 73, 78]
def kAUTHENTICATE : Bytes := [65, 85, 84, 72, 69, 78, 84, 73, 67, 65, 84, 69]
def kPLAIN : Bytes := [80, 76, 65, 73, 78]
def kDELETE : Bytes := [68, 69, 76, 69, 84, 69]
def kLOGOUT : Bytes := [76, 79, 71, 79, 85, 84]
def kOK : Bytes := [79, 75]
def kNO : Bytes := [78, 79]
def kBAD : Bytes := [66, 65, 68]
def kBYE : Bytes := [66, 89, 69]
def kPREAUTH : Bytes := [80, 82, 69, 65, 85, 84, 72]
def kEXISTS : Bytes := [69, 88, 73, 83, 84, 83]
def kStar : Bytes := [42]

/-! ## server side (imapserver) -/

structure Cfg where
  insecure : Bool   -- Options.InsecureAuth
  tlsCfg : Bool     -- Options.TLSConfig != nil
  preauth : Bool    -- GreetingData.PreAuth
deriving DecidableEq, Repr

inductive CState where
  | none | notAuth | auth | logout
deriving DecidableEq, Repr

structure SrvSt where
  state : CState
  tls : Bool        -- c.conn is a *tls.Conn
deriving DecidableEq, Repr

/-- imapserver/starttls.go:13-16 -/
def canStartTLS (c : Cfg) (s : SrvSt) : Bool := c.tlsCfg && s.state == .notAuth && !s.tls

/-- imapserver/conn.go: canAuth -/
def canAuth (c : Cfg) (s : SrvSt) : Bool :=
  if s.state != .notAuth then false else s.tls || c.insecure

/-- the state-dependent part of `availableCaps` (imapserver/capability.go:28-87) -/
structure CapFlags where
  starttls : Bool
  authPlain : Bool
  loginDisabled : Bool
  authed : Bool      -- the block of capabilities only listed when authenticated/selected
deriving DecidableEq, Repr

def availableCaps (c : Cfg) (s : SrvSt) : CapFlags :=
  { starttls := canStartTLS c s,
    authPlain := canAuth c s,
    loginDisabled := !canAuth c s && s.state == .notAuth,
    authed := s.state == .auth }

/-- rendering for the default capability set (Options.Caps = nil, i.e. IMAP4rev1 only) -/
def capNames (f : CapFlags) : List String :=
  ["IMAP4rev1", "SASL-IR", "LITERAL-"]
  ++ (if f.starttls then ["STARTTLS"] else [])
  ++ (if f.authPlain then ["AUTH=PLAIN"] else if f.loginDisabled then ["LOGINDISABLED"] else [])
  ++ (if f.authed then ["UNSELECT", "ENABLE", "IDLE", "UTF8=ACCEPT"] else [])

inductive Status where
  | ok | no | bad
deriving DecidableEq, Repr

inductive Call where
  | login (user pass : Bytes)
  | auth (token : Bytes)      -- AUTHENTICATE PLAIN with this initial response (opaque base64)
  | delete (mbox : Bytes)
  | poll
deriving DecidableEq, Repr

inductive SEv where
  | reply (tag : Bytes) (s : Status) (caps : Option CapFlags)
  | capsData (c : CapFlags)
  | bye
  | call (c : Call) (tls : Bool)
  | unmodelled
deriving DecidableEq, Repr

def srvInit (c : Cfg) : SrvSt := ⟨if c.preauth then .auth else .notAuth, false⟩

/-- conn.go: poll — only in the authenticated/selected states -/
def pollEv (s : SrvSt) : List SEv := if s.state == .auth then [.call .poll s.tls] else []

abbrev SrvOut := SrvSt × List SEv × Act

/-- conn.go: handleNoop + poll -/
def execNoop (s : SrvSt) (tag : Bytes) (args : List Bytes) : SrvOut :=
  if !args.isEmpty then (s, [.reply tag .bad none], .cont)
  else (s, pollEv s ++ [.reply tag .ok none], .cont)

/-- capability.go: handleCapability -/
def execCapability (c : Cfg) (s : SrvSt) (tag : Bytes) (args : List Bytes) : SrvOut :=
  if !args.isEmpty then (s, [.reply tag .bad none], .cont)
  else (s, [.capsData (availableCaps c s)] ++ pollEv s ++ [.reply tag .ok none], .cont)

/-- starttls.go:18-46 -/
def execStartTLS (c : Cfg) (s : SrvSt) (tag : Bytes) (args : List Bytes) : SrvOut :=
  if !args.isEmpty then (s, [.reply tag .bad none], .cont)
  else if !c.tlsCfg then (s, [.reply tag .no none], .cont)
  else if !canStartTLS c s then (s, [.reply tag .bad none], .cont)
  else ({ s with tls := true }, [.reply tag .ok none], .switch)

/-- login.go:13-23 -/
def execLogin (c : Cfg) (s : SrvSt) (tag : Bytes) (args : List Bytes) : SrvOut :=
  match args with
  | [u, p] =>
    if u.isEmpty || p.isEmpty then (s, [.reply tag .bad none], .cont)
    else if s.state != .notAuth then (s, [.reply tag .bad none], .cont)
    else if !canAuth c s then (s, [.reply tag .no none], .cont)
    else
      (⟨.auth, s.tls⟩, [.call (.login u p) s.tls, .reply tag .ok (some (availableCaps c ⟨.auth, s.tls⟩))], .cont)
  | _ => (s, [.reply tag .bad none], .cont)

/-- authenticate.go:15-47 (only the SASL-IR form `AUTHENTICATE PLAIN <initial response>`) -/
def execAuthenticate (c : Cfg) (s : SrvSt) (tag : Bytes) (args : List Bytes) : SrvOut :=
  match args with
  | [mech, tok] =>
    if mech.map upper != kPLAIN || tok.isEmpty then (s, [.unmodelled], .stop)
    else if s.state != .notAuth then (s, [.reply tag .bad none], .cont)
    else if !canAuth c s then (s, [.reply tag .no none], .cont)
    else
      (⟨.auth, s.tls⟩, [.call (.auth tok) s.tls, .reply tag .ok (some (availableCaps c ⟨.auth, s.tls⟩))], .cont)
  | _ => (s, [.unmodelled], .stop)

/-- conn.go: handleDelete + poll -/
def execDelete (s : SrvSt) (tag : Bytes) (args : List Bytes) : SrvOut :=
  match args with
  | [m] =>
    if m.isEmpty then (s, [.reply tag .bad none], .cont)
    else if s.state != .auth then (s, [.reply tag .bad none], .cont)
    else (s, [.call (.delete m) s.tls] ++ pollEv s ++ [.reply tag .ok none], .cont)
  | _ => (s, [.reply tag .bad none], .cont)

/-- conn.go: handleLogout -/
def execLogout (s : SrvSt) (tag : Bytes) (args : List Bytes) : SrvOut :=
  if !args.isEmpty then (s, [.reply tag .bad none], .cont)
  else (⟨.logout, s.tls⟩, [.bye, .reply tag .ok none], .stop)

/-- conn.go: readCommand default case: BAD, and before authentication the connection is dropped with BYE -/
def execUnknown (s : SrvSt) (tag : Bytes) : SrvOut :=
  if s.state == .notAuth then (⟨.logout, s.tls⟩, [.reply tag .bad none, .bye], .stop)
  else (s, [.reply tag .bad none], .cont)

/-- conn.go: readCommand dispatch on the upper-cased command name -/
def execCmd (c : Cfg) (s : SrvSt) (tag nm : Bytes) (args : List Bytes) : SrvOut :=
  if nm = kNOOP then execNoop s tag args
  else if nm = kCAPABILITY then execCapability c s tag args
  else if nm = kSTARTTLS then execStartTLS c s tag args
  else if nm = kLOGIN then execLogin c s tag args
  else if nm = kAUTHENTICATE then execAuthenticate c s tag args
  else if nm = kDELETE then execDelete s tag args
  else if nm = kLOGOUT then execLogout s tag args
  else execUnknown s tag

/-- one command line, following conn.go: readCommand and the handlers of the commands the tie uses -/
def serverExec (c : Cfg) : Exec SrvSt SEv := fun s line =>
  match splitSp (stripEOL line) with
  | tag :: name :: args =>
    if tag.isEmpty || name.isEmpty then (s, [.unmodelled], .stop)
    else execCmd c s tag (name.map upper) args
  | _ => (s, [.unmodelled], .stop)

structure SrvRun where
  r : RSt SrvSt SEv            -- the raw socket
  accepted : Bool              -- the connection switched to TLS
  hsOK : Bool                  -- the handshake completed
  post : List SEv              -- events of the commands received inside TLS

/-- a whole server case: the raw segments, whether the peer then performs a TLS handshake, and the
    command bytes it sends inside TLS when the handshake completed -/
def runServer (h : Handover) (c : Cfg) (segs : List Bytes) (peerHandshakes : Bool) (post : Bytes) : SrvRun :=
  let r := route h (serverExec c) (RSt.init (srvInit c)) segs
  let accepted := r.st.tls
  let hsOK := accepted && tlsAccepts r.tls peerHandshakes
  let r2 : RSt SrvSt SEv :=
    if hsOK then scan h (serverExec c) (RSt.init r.st) post
    else RSt.init r.st
  ⟨r, accepted, hsOK, r2.evs.map (·.2)⟩

/-! ## client side (imapclient) -/

inductive Greet where
  | ok | preauth | bye
deriving DecidableEq, Repr

structure CliSt where
  state : CState               -- Client.state (none until the greeting)
  greeted : Bool
  startTag : Bytes             -- tag of the pending STARTTLS command
  pending : Bool               -- STARTTLS not yet completed
  result : Option Status       -- completion of STARTTLS
  tls : Bool
deriving DecidableEq, Repr

inductive CEv where
  | greeting (g : Greet)
  | exists_ (n : Nat)          -- handed to UnilateralDataHandler.Mailbox
  | caps (l : List Bytes)      -- stored by setCaps: what Caps() returns
  | capsReset                  -- setCaps(nil)
  | done (s : Status)          -- STARTTLS completed
  | protoError                 -- the reader goroutine stops with an error
  | unmodelled
deriving DecidableEq, Repr

def cliInit (tag : Bytes) : CliSt := ⟨.none, false, tag, true, none, false⟩

/-- imapclient/client.go: readResponse / readResponseTagged / readResponseData, for the response
    lines the tie uses -/
def clientExec : Exec CliSt CEv := fun s line =>
  match splitSp (stripEOL line) with
  | tag :: typ :: rest =>
    if tag = kStar then
      if typ = kOK || typ = kPREAUTH || typ = kBYE || typ = kNO || typ = kBAD then
        if (rest.head?.bind (·.head?)) = some 91 then (s, [.unmodelled], .stop)   -- response code
        else if !s.greeted then
          if typ = kOK then ({ s with greeted := true, state := .notAuth }, [.greeting .ok, .capsReset], .cont)
          else if typ = kPREAUTH then ({ s with greeted := true, state := .auth }, [.greeting .preauth, .capsReset], .cont)
          else ({ s with greeted := true, state := .logout }, [.greeting .bye], .stop)
        else (s, [], .cont)
      else if typ = kCAPABILITY then (s, [.caps rest], .cont)
      else match decimal? typ, rest with
        | some n, [k] => if k = kEXISTS then (s, [.exists_ n], .cont) else (s, [.unmodelled], .stop)
        | _, _ => (s, [.unmodelled], .stop)
    else if tag.isEmpty || typ.isEmpty then (s, [.protoError], .stop)
    else if s.pending && tag = s.startTag then
      if (rest.head?.bind (·.head?)) = some 91 then (s, [.unmodelled], .stop)
      else if typ = kOK then
        ({ s with pending := false, result := some .ok, tls := true }, [.done .ok, .capsReset], .switch)
      else if typ = kNO then ({ s with pending := false, result := some .no }, [.done .no], .cont)
      else if typ = kBAD then ({ s with pending := false, result := some .bad }, [.done .bad], .cont)
      else ({ s with pending := false }, [.protoError], .stop)
    else (s, [.protoError], .stop)       -- tagged response with unknown tag
  | _ => (s, [.protoError], .stop)

inductive NewResult where
  | client      -- NewStartTLS returned a usable *Client
  | error       -- NewStartTLS returned an error (and closed the connection)
deriving DecidableEq, Repr

/-- imapclient/client.go:192-210: `startTLS` fails unless the command completed OK; afterwards a state
    other than "not authenticated" (PREAUTH greeting, or no greeting at all) is refused -/
def newStartTLS (s : CliSt) : NewResult :=
  match s.result with
  | some .ok => if s.state = .notAuth then .client else .error
  | _ => .error

/-- the two public constructors that upgrade a plaintext connection -/
inductive Ctor where
  | newStartTLS    -- imapclient.NewStartTLS(conn, options)
  | dialStartTLS   -- imapclient.DialStartTLS(address, options): dials TCP, derives the tls.Config, then
                   -- returns NewStartTLS(conn, &newOptions) (imapclient/client.go: DialStartTLS)
deriving DecidableEq, Repr

/-- what the constructor returns once the reader has processed the plaintext part: both go through the
    same decision (the PREAUTH refusal lives in NewStartTLS, DialStartTLS must delegate to it) -/
def construct : Ctor → CliSt → NewResult
  | .newStartTLS, s => newStartTLS s
  | .dialStartTLS, s => newStartTLS s

/-- commands NewStartTLS itself puts on the wire after the STARTTLS command: none -/
def furtherCommands (_ : CliSt) : List Bytes := []

structure CliRun where
  r : RSt CliSt CEv
  result : NewResult
  hsOK : Bool

def runClient (h : Handover) (k : Ctor) (tag : Bytes) (segs : List Bytes) (peerHandshakes : Bool) : CliRun :=
  let r := route h clientExec (RSt.init (cliInit tag)) segs
  ⟨r, construct k r.st, r.st.tls && tlsAccepts r.tls peerHandshakes⟩

end GoImap.StartTLS
