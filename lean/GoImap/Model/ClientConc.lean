/-
  C13 — the client's shared state as a labelled transition system. Core Lean only.

  Mirrors /repo/imapclient/client.go (beginCommand, commandEncoder.end/flush/Literal,
  registerContReq, completeCommand, closeWithError, read, readResponseTagged, readContinueReq,
  Close, State, Caps, Mailbox), idle.go (idle, IdleCommand.run/Close/Wait), search.go (the read of
  c.enabled), enable.go (handleEnabled), internal/imapwire/imapwire.go (ContinuationRequest).

  Every thread owns a program (a list of `Instr`); `step v s t` executes the head instruction of
  thread `t` when its guard holds and leaves the state unchanged otherwise. One instruction is one
  critical section of the Go code (a `c.mutex` section, the acquisition of `c.encMutex`, one
  channel operation) in the code's order. Instructions with `label = none` ("silent") are the
  thread-local code that the Go code runs between two synchronisation points (writing to the
  connection, releasing `encMutex`, loading `cmd.done`); the theorems quantify over ALL schedules,
  including those that delay silent instructions, which is a superset of what the code can do.

  `Variant` selects the repaired code (`fixed`) or one of the unrepaired behaviours kept on record
  (`Legacy.*`).
-/
namespace GoImap.ClientConc

/-- `login2`: LOGIN whose two arguments both need a synchronising literal -/
inductive Kind | noop | fetch | login | append | search | enable | idle | login2
  deriving DecidableEq, Repr, Inhabited

/-- class of the value delivered on `cmd.done`: nil, *imap.Error (NO/BAD), any other error -/
inductive Res | none | ok | no | err
  deriving DecidableEq, Repr, Inhabited

inductive Reply | ok | no
  deriving DecidableEq, Repr

/-- `refused`: cancelled by the command's tagged NO/BAD (an `*imap.Error`), which `flush` tolerates;
    `cancelled`: cancelled with any other error -/
inductive ContSt | unused | waiting | done | cancelled | refused
  deriving DecidableEq, Repr

inductive WireKind | line | head | head2 | tail | done
  deriving DecidableEq, Repr

inductive FlushMode | final | lit | idle
  deriving DecidableEq, Repr

/-- imap.ConnState as far as the scenarios reach it -/
inductive CState | notAuth | auth | logout
  deriving DecidableEq, Repr

inductive Line
  | tagged (tag : Nat) (rep : Reply) (caps : Bool)
  | cont
  | enabled
  deriving DecidableEq, Repr

inductive SrvAct
  | reply (rep : Reply) (oldest : Bool)
  | cont
  | enabled
  | close
  | rerr
  deriving DecidableEq, Repr

structure Variant where
  /-- F21 repaired: `tag`/`done` are initialised before the command is appended to pendingCmds -/
  initFirst : Bool
  /-- F26 repaired (1/2): idle() registers its continuation request while holding encMutex -/
  idleUnderEnc : Bool
  /-- F26 repaired: search() reads c.enabled under c.mutex -/
  enabledGuarded : Bool
  /-- F26 repaired (2/2): closeWithError cancels every continuation request still queued -/
  cancelOnClose : Bool
  /-- 0d4c77c: a continuation request registered for an already completed command is cancelled at
      once instead of being queued -/
  cancelIfCompleted : Bool
  deriving DecidableEq, Repr

/-- the repaired tree -/
def fixed : Variant := ⟨true, true, true, true, true⟩
namespace Legacy
/-- beginCommand registered the command before initialising it -/
def f21 : Variant := ⟨false, true, true, true, true⟩
/-- idle() registered its continuation request before taking encMutex -/
def f26idle : Variant := ⟨true, false, true, false, false⟩
/-- search() read c.enabled without the mutex -/
def f26enabled : Variant := ⟨true, true, false, true, true⟩
/-- the obvious repair of F26 alone (`beginCommand; registerContReq; flush`): a command completed
    by closeWithError between the two calls leaves its continuation request behind and idle()
    waits for it forever -/
def f26reorderOnly : Variant := ⟨true, true, true, false, false⟩
/-- a continuation request registered after its command had completed (second literal of a command
    whose first literal was refused) stayed in the queue and took the next command's "+" -/
def lateContReq : Variant := ⟨true, true, true, true, false⟩
end Legacy

inductive Instr
  -- submission (beginCommand, commandEncoder)
  | encLock
  | register (c : Nat)
  | postReg (c : Nat)
  | flush (c : Nat) (w : WireKind) (m : FlushMode)
  | regCont (c : Nat)
  | litCaps
  | contWait (c : Nat) (idle : Bool)
  | wait (c : Nat)
  | fetchNext (c : Nat)
  | capsSel
  | capsLock (record : Bool)
  | searchEnabled
  | opEnd
  -- IDLE
  | idleGo (c : Nat)
  | idleStop (c : Nat)
  | idleJoin (c : Nat)
  | idleRunSel (c : Nat)
  | idleDoneW (c : Nat)
  | idleRunClose (c : Nat)
  | idleWait (c : Nat)
  -- closeWithError / completeCommand
  | closeSwap
  | cancelOrphans (ks : List Nat)
  | loadDone (c : Nat) (r : Res)
  | send (c : Nat) (r : Res) (init : Bool)
  | closeDone (c : Nat)
  | cancelConts (c : Nat) (r : Res)
  | setState (st : CState)
  | closeMsgs (c : Nat)
  | encUnlock
  -- Close, observers
  | closeBegin
  | closeJoin
  | obsState
  | obsMailbox
  -- reader
  | connRead
  | rdNext
  | delByTag (tag : Nat) (rep : Reply) (caps : Bool)
  | setCaps
  | popCont
  | contDone (k : Nat)
  | enabledW
  | findByType
  | rdExit
  -- server end of the connection
  | srv (a : SrvAct)
  deriving DecidableEq, Repr

/-- the per-command record: the `Command` struct plus ghost counters -/
structure CmdRec where
  kind : Kind := .noop
  registered : Bool := false
  /-- tag allocated under the mutex (local variable `tag`; what is written on the wire) -/
  ltag : Nat := 0
  /-- the struct field `cmd.tag` as other goroutines see it (0 = not initialised) -/
  tag : Nat := 0
  /-- `cmd.done` has been made -/
  chanInit : Bool := false
  sent : Nat := 0
  closed : Nat := 0
  res : Res := .none
  waited : Bool := false
  streamClosed : Nat := 0
  cont : Nat := 0
  idleStopped : Bool := false
  idleDone : Bool := false
  /-- writing DONE failed: IdleCommand.Wait returns that error without waiting for the command -/
  idleErr : Bool := false
  idleErrReturned : Bool := false
  /-- `Command.completed`: set by completeCommand under the mutex; a continuation request
      registered afterwards is cancelled at once instead of being queued -/
  completed : Bool := false
  /-- the sticky error of this command's encoder: 0 none, 1 an `*imap.Error` (a literal was
      refused with NO/BAD), 2 any other error. Once set, nothing more is written for the command -/
  encErr : Nat := 0
  deriving Repr

-- thread ids
def tReader : Nat := 0
def tServer : Nat := 1
def tCloser : Nat := 2
def tObserver : Nat := 3
def tSub (i : Nat) : Nat := 4 + i
/-- the goroutine running IdleCommand.run on behalf of thread `t` -/
def idleTid (t : Nat) : Nat := t + 6

structure St where
  enc : Option Nat := none
  cmdTag : Nat := 0
  pending : List Nat := []
  contReqs : List (Nat × Nat) := []
  nextCont : Nat := 1
  contSt : Nat → ContSt := fun _ => .unused
  closedFlag : Bool := false
  closerAlready : Bool := false
  connClosed : Bool := false
  srvClosed : Bool := false
  rerr : Bool := false
  inbox : List Line := []
  rdbuf : List Line := []
  /-- what the client wrote, one entry per flush: (command, kind) -/
  wire : List (Nat × WireKind) := []
  replied : List Nat := []
  contGiven : List Nat := []
  /-- ghost: the command each `+` of the server was addressed to, and the command the client
      actually resumed with it -/
  contAddressed : List Nat := []
  contResumed : List Nat := []
  /-- ghost: the commands for which a continuation request was registered, in registration order -/
  regLog : List Nat := []
  /-- ghost: the command whose continuation request has been registered and whose literal header /
      IDLE line (the very next thing its goroutine does) has not been flushed yet -/
  unfl : Option Nat := none
  state : CState := .notAuth
  caps : Bool := true
  enabledUtf8 : Bool := false
  decClosed : Bool := false
  decErr : Bool := false
  crashed : Bool := false
  cmd : Nat → CmdRec := fun _ => {}
  prog : Nat → List Instr := fun _ => []
  obs : List Nat := []
  closeRes : List Nat := []

def St.setProg (s : St) (t : Nat) (p : List Instr) : St :=
  { s with prog := fun u => if u = t then p else s.prog u }

def St.updCmd (s : St) (c : Nat) (f : CmdRec → CmdRec) : St :=
  { s with cmd := fun d => if d = c then f (s.cmd d) else s.cmd d }

def St.setCont (s : St) (k : Nat) (v : ContSt) : St :=
  { s with contSt := fun j => if j = k then v else s.contSt j }

/-- net.Conn.Close on the client end: unread data is dropped, writes fail from now on -/
def St.closeConn (s : St) : St := { s with connClosed := true, inbox := [] }

def St.writable (s : St) : Bool := !s.connClosed && !s.srvClosed

def resOfReply : Reply → Res
  | .ok => .ok
  | .no => .no

/-- completeCommand(cmd, r): load `done`, send, close, cancel continuation requests, then the
    type switch -/
def complete (kind : Kind) (c : Nat) (r : Res) : List Instr :=
  [.loadDone c r, .closeDone c, .cancelConts c r] ++
  (match kind, r with
   | .login, .ok => [.setState .auth]
   | .login2, .ok => [.setState .auth]
   | .fetch, _ => [.closeMsgs c]
   | _, _ => [])

def isFinalFlush : Instr → Bool
  | .flush _ _ .final => true
  | _ => false

def isOpEnd : Instr → Bool
  | .opEnd => true
  | _ => false

/-- drop everything up to and including the first instruction satisfying `p` -/
def dropThrough (p : Instr → Bool) : List Instr → List Instr
  | [] => []
  | i :: rest => if p i then rest else dropThrough p rest

def handler : Line → List Instr
  | .tagged tag rep caps => [.delByTag tag rep caps]
  | .cont => [.popCont]
  | .enabled => [.enabledW, .findByType]

/-- the reader leaves its loop: closeWithError, then `close(c.decCh)` -/
def readerExit : List Instr := [.closeSwap, .rdExit]

def firstWithTag (s : St) (tag : Nat) : List Nat → Option Nat
  | [] => none
  | c :: rest => if (s.cmd c).tag = tag then some c else firstWithTag s tag rest

/-- commands that have something on the wire, in order of first appearance -/
def onWire : List (Nat × WireKind) → List Nat
  | [] => []
  | (c, _) :: rest => c :: (onWire rest).filter (· ≠ c)

def lastKind (w : List (Nat × WireKind)) (c : Nat) : Option WireKind :=
  (w.reverse.find? (·.1 = c)).map (·.2)

def unanswered (s : St) : List Nat := (onWire s.wire).filter fun c => !s.replied.contains c

def isHeadKind : WireKind → Bool
  | .head | .head2 => true
  | _ => false

def headCount (w : List (Nat × WireKind)) (c : Nat) : Nat :=
  (w.filter fun e => e.1 = c && isHeadKind e.2).length

/-- commands whose last flush was a literal head / IDLE line that has not been continued yet -/
def openHeads (s : St) : List Nat :=
  (unanswered s).filter fun c =>
    (match lastKind s.wire c with | some k => isHeadKind k | none => false) &&
    decide (s.contGiven.count c < headCount s.wire c)

def deliver (s : St) (l : Line) : St :=
  if s.connClosed then s else { s with inbox := s.inbox ++ [l] }

def execSrv (s : St) (t : Nat) (rest : List Instr) : SrvAct → St
  | .reply rep oldest =>
    let cands := unanswered s
    match (if oldest then cands.head? else cands.getLast?) with
    | none => s
    | some c =>
      let caps := (decide ((s.cmd c).kind = .login) || decide ((s.cmd c).kind = .login2)) && decide (rep = .ok)
      ({ deliver s (.tagged (s.cmd c).ltag rep caps) with replied := s.replied ++ [c] }).setProg t rest
  | .cont =>
    match (openHeads s).head? with
    | none => s
    | some c =>
      ({ deliver s .cont with contGiven := s.contGiven ++ [c],
                              contAddressed := s.contAddressed ++ [c] }).setProg t rest
  | .enabled => (deliver s .enabled).setProg t rest
  | .close => ({ s with srvClosed := true }).setProg t rest
  | .rerr => ({ s with rerr := true }).setProg t rest

/-- the flush of command `c`'s encoder by its owner `t` (`exec` checks the ownership) -/
def flushBody (s : St) (t c : Nat) (w : WireKind) (m : FlushMode) (rest : List Instr) : St :=
  let e := (s.cmd c).encErr
  match m with
  | .lit =>
    -- Encoder.Literal: header + CRLF + Flush; nothing at all once the encoder has failed
    if e ≠ 0 then s.setProg t rest
    else if s.writable then ({ s with wire := s.wire ++ [(c, w)] }).setProg t rest
    else (s.updCmd c fun r => { r with encErr := 2 }).setProg t rest
  | .final =>
    -- commandEncoder.end: flush() tolerates an *imap.Error, any other error closes the client
    -- (an *imap.Error can only be the command's own tagged NO/BAD: it has left pendingCmds)
    if e = 1 && !s.pending.contains c then ({ s with enc := none }).setProg t rest
    else if e = 0 && s.writable then ({ s with wire := s.wire ++ [(c, w)], enc := none }).setProg t rest
    else s.closeConn.setProg t (.closeSwap :: .encUnlock :: rest)
  | .idle =>
    if s.writable then ({ s with wire := s.wire ++ [(c, w)] }).setProg t rest
    else s.closeConn.setProg t (.closeSwap :: rest)

/-- thread `t` owns the encoder lock (for an IDLE in progress the owner is its supervisor) -/
def St.holds (s : St) (t : Nat) : Bool := decide (s.enc = some t)

/-- threads that can have a program: the reader, server, closer, observer, up to six submitters
    and their IDLE supervisors -/
def maxThreads : Nat := 16

/-- execute instruction `i` of thread `t` whose remaining program is `rest`.

    The instructions of a command submission between `encMutex.Lock()` and the matching `Unlock()`
    are sequential code of ONE goroutine that holds the lock; the model says so explicitly: they are
    executed only by the thread recorded as the lock's owner (never violated by scenario programs;
    a violation would make the model stall where the code moves, which the tie would report). -/
def exec (v : Variant) (s : St) (t : Nat) (i : Instr) (rest : List Instr) : St :=
  match i with
  | .encLock =>
    match s.enc with
    | none => ({ s with enc := some t }).setProg t rest
    | some _ => s
  | .register c =>
    -- every submission creates a fresh Go command object; the model names objects by their id
    -- and therefore refuses to register an id twice (never the case for scenario programs)
    if !s.holds t || (s.cmd c).registered then s else
    let tag := s.cmdTag + 1
    (({ s with cmdTag := tag, pending := s.pending ++ [c] }).updCmd c fun r =>
      { r with registered := true, ltag := tag,
               tag := if v.initFirst then tag else r.tag,
               chanInit := v.initFirst || r.chanInit }).setProg t rest
  | .postReg c =>
    if !s.holds t then s else
    (if v.initFirst then s
     else s.updCmd c fun r => { r with tag := r.ltag, chanInit := true }).setProg t rest
  | .flush c w m =>
    if !s.holds t then s else
    -- a literal header / IDLE line is flushed by the goroutine that has just registered the
    -- continuation request for it (sequential code: registerContReq, then the flush)
    if v.idleUnderEnc && isHeadKind w && decide (s.unfl ≠ some c) then s else
    flushBody (if isHeadKind w then { s with unfl := none } else s) t c w m rest
  | .regCont c =>
    if v.idleUnderEnc && !s.holds t then s else
    let k := s.nextCont
    if v.cancelIfCompleted && (s.cmd c).completed then
      -- the command is over already: cancelled at once, never queued
      ((({ s with nextCont := k + 1, regLog := s.regLog ++ [c], unfl := some c }).setCont k .cancelled).updCmd c
        fun r => { r with cont := k }).setProg t rest
    else
      ((({ s with nextCont := k + 1, contReqs := s.contReqs ++ [(k, c)], regLog := s.regLog ++ [c],
                  unfl := some c }).setCont k .waiting).updCmd c
        fun r => { r with cont := k }).setProg t rest
  | .litCaps => if !s.holds t then s else s.setProg t rest
  | .contWait c idle =>
    if !s.holds t then s else
    if !idle && (s.cmd c).encErr ≠ 0 then s.setProg t rest   -- Encoder.Literal returned before Wait
    else
    match s.contSt (s.cmd c).cont with
    | .done => s.setProg t rest
    | .cancelled =>
      if idle then s.setProg t (.encUnlock :: dropThrough isOpEnd rest)
      else (s.updCmd c fun r => { r with encErr := 2 }).setProg t rest
    | .refused =>
      -- the server answered the literal header / IDLE with NO or BAD: the command is over
      if idle then s.setProg t (.encUnlock :: dropThrough isOpEnd rest)
      else
        -- the error handed over by Cancel is the command's own completion error (an *imap.Error):
        -- the command has been completed (`completed` is set in the same critical section)
        (s.updCmd c fun r => { r with encErr := if r.completed then 1 else 2 }).setProg t rest
    | _ => s
  | .wait c =>
    let r := s.cmd c
    if r.chanInit && ((decide (r.sent ≥ 1) && !r.waited) || decide (r.closed ≥ 1)) then
      (s.updCmd c fun r => { r with waited := true }).setProg t rest
    else s
  | .fetchNext c => if (s.cmd c).streamClosed ≥ 1 then s.setProg t rest else s
  | .capsSel => s.setProg t rest
  | .capsLock record =>
    (if record then { s with obs := s.obs ++ [if s.caps then 11 else 10] } else s).setProg t rest
  | .searchEnabled => s.setProg t rest
  | .opEnd => s.setProg t rest
  | .idleGo c =>
    -- the supervisor goroutine of this IDLE takes over the encoder lock (a previous supervisor of
    -- the same submitter has ended: its IdleCommand.Close waited for it)
    if !s.holds t || !(s.prog (idleTid t)).isEmpty || decide (maxThreads ≤ idleTid t) then s else
    (({ s with enc := some (idleTid t) }).setProg t rest).setProg (idleTid t)
      [.idleRunSel c, .idleDoneW c, .idleRunClose c]
  | .idleStop c => (s.updCmd c fun r => { r with idleStopped := true }).setProg t rest
  | .idleJoin c => if (s.cmd c).idleDone then s.setProg t rest else s
  | .idleRunSel c => if (s.cmd c).idleStopped then s.setProg t rest else s
  | .idleDoneW c =>
    if !s.holds t then s else
    let s1 := if s.writable then { s with wire := s.wire ++ [(c, .done)] }
              else s.updCmd c fun r => { r with idleErr := true }
    ({ s1 with enc := none }).setProg t rest
  | .idleRunClose c => (s.updCmd c fun r => { r with idleDone := true }).setProg t rest
  | .idleWait c =>
    if (s.cmd c).idleDone then
      if (s.cmd c).idleErr then
        (s.updCmd c fun r => { r with idleErrReturned := true }).setProg t (dropThrough isOpEnd rest)
      else s.setProg t rest
    else s
  | .closeSwap =>
    let completions := s.pending.flatMap (fun c => complete (s.cmd c).kind c .err)
    if v.cancelOnClose then
      ({ s with state := .logout, pending := [], contReqs := [] }).setProg t
        (completions ++ Instr.cancelOrphans (s.contReqs.map Prod.fst) :: rest)
    else
      ({ s with state := .logout, pending := [] }).setProg t (completions ++ rest)
  | .cancelOrphans ks =>
    (ks.foldl (fun acc k => acc.setCont k .cancelled) s).setProg t rest
  | .loadDone c r => s.setProg t (.send c r (s.cmd c).chanInit :: rest)
  | .send c r init =>
    let rc := s.cmd c
    if !init then s                                   -- send on a nil channel: blocks forever
    else if rc.closed ≥ 1 then { s with crashed := true }   -- send on a closed channel
    else if rc.sent ≥ 1 && !rc.waited then s          -- buffer (capacity 1) full
    else (s.updCmd c fun rc => { rc with sent := rc.sent + 1,
                                         res := if rc.sent = 0 then r else rc.res }).setProg t rest
  | .closeDone c =>
    let rc := s.cmd c
    if rc.closed ≥ 1 || !rc.chanInit then { s with crashed := true }
    else (s.updCmd c fun rc => { rc with closed := rc.closed + 1 }).setProg t rest
  | .cancelConts c r =>
    let gone := s.contReqs.filter (·.2 = c)
    let s1 := { s with contReqs := s.contReqs.filter (·.2 ≠ c) }
    ((gone.foldl (fun acc kc => acc.setCont kc.1 (if r = .no then .refused else .cancelled)) s1).updCmd c
      fun rc => { rc with completed := true }).setProg t rest
  | .setState st => ({ s with state := st }).setProg t rest
  | .closeMsgs c =>
    if (s.cmd c).streamClosed ≥ 1 then { s with crashed := true }
    else (s.updCmd c fun rc => { rc with streamClosed := rc.streamClosed + 1 }).setProg t rest
  | .encUnlock => if !s.holds t then s else ({ s with enc := none }).setProg t rest
  | .closeBegin =>
    ({ s with closerAlready := s.closedFlag, closedFlag := true }).closeConn.setProg t rest
  | .closeJoin =>
    if s.decClosed then
      ({ s with closeRes := s.closeRes ++ [if s.decErr then 2 else if s.closerAlready then 1 else 0] }).setProg t rest
    else s
  | .obsState =>
    ({ s with obs := s.obs ++ [match s.state with | .notAuth => 1 | .auth => 2 | .logout => 3] }).setProg t rest
  | .obsMailbox => ({ s with obs := s.obs ++ [20] }).setProg t rest
  | .connRead =>
    if !s.inbox.isEmpty then ({ s with rdbuf := s.inbox, inbox := [] }).setProg t [.rdNext]
    else if s.rerr then ({ s with decErr := true }).closeConn.setProg t readerExit
    else if s.connClosed || s.srvClosed then s.closeConn.setProg t readerExit
    else s
  | .rdNext =>
    match s.rdbuf with
    | [] => s.setProg t [.connRead]
    | l :: more => ({ s with rdbuf := more }).setProg t (handler l ++ [Instr.rdNext])
  | .delByTag tag rep caps =>
    match firstWithTag s tag s.pending with
    | none => ({ s with decErr := true }).closeConn.setProg t readerExit
    | some c =>
      ({ s with pending := s.pending.erase c }).setProg t
        ((if caps then [Instr.setCaps] else []) ++ complete (s.cmd c).kind c (resOfReply rep) ++ rest)
  | .setCaps => ({ s with caps := true }).setProg t rest
  | .popCont =>
    match s.contReqs with
    | [] => ({ s with decErr := true }).closeConn.setProg t readerExit
    | (k, c) :: more =>
      ({ s with contReqs := more, contResumed := s.contResumed ++ [c] }).setProg t (.contDone k :: rest)
  | .contDone k =>
    if s.contSt k = .waiting then (s.setCont k .done).setProg t rest
    else { s with crashed := true }
  | .enabledW => ({ s with enabledUtf8 := true }).setProg t rest
  | .findByType => s.setProg t rest
  | .rdExit => ({ s with decClosed := true }).setProg t rest
  | .srv a => if s.srvClosed then s else execSrv s t rest a

/-- `Caps()` starts with WaitGreeting, a `select` over the greeting channel and `decCh`. Once the
    reader has ended both are closed and Go picks either branch; on the `decCh` branch Caps returns
    nil without touching the mutex. The choice is the scheduler's: schedule entry `100 + t`. -/
def skipCaps (s : St) (t : Nat) : St :=
  match s.prog t with
  | .capsSel :: .capsLock record :: rest =>
    if s.decClosed then
      (if record then { s with obs := s.obs ++ [10] } else s).setProg t rest
    else s
  | _ => s

/-- one step of thread `t`; a thread without program, a blocked thread or a crashed process
    leaves the state unchanged -/
def step (v : Variant) (s : St) (t : Nat) : St :=
  if s.crashed then s else
  if t ≥ 100 then (if t - 100 < maxThreads then skipCaps s (t - 100) else s) else
  if t ≥ maxThreads then s else
  match s.prog t with
  | [] => s
  | i :: rest => exec v s t i rest

def run (v : Variant) (s : St) (sched : List Nat) : St := sched.foldl (step v) s

/-! ### Labels: where the instrumented Go code parks for each instruction -/

def label (v : Variant) : Instr → Option String
  | .encLock => some "Client.beginCommand:encMutex.Lock#1"
  | .register _ => some "Client.beginCommand:mutex.Lock#1"
  | .postReg _ => some "Client.beginCommand:mutex.Unlock#1"
  | .flush .. => none
  | .regCont _ => some "Client.registerContReq:mutex.Lock#1"
  | .litCaps => some "commandEncoder.Literal:mutex.Lock#1"
  | .contWait .. => some "ContinuationRequest.Wait:recv#1"
  | .wait _ => some "Command.Wait:recv#1"
  | .fetchNext _ => some "FetchCommand.Next:recv#1"
  | .capsSel => some "Client.WaitGreeting:select#1"
  | .capsLock _ => some "Client.Caps:mutex.Lock#1"
  | .searchEnabled => if v.enabledGuarded then some "Client.search:mutex.Lock#1" else none
  | .opEnd => none
  | .idleGo _ => some "Client.Idle:go#1"
  | .idleStop _ => some "IdleCommand.Close:close#1"
  | .idleJoin _ => some "IdleCommand.Close:recv#1"
  | .idleRunSel _ => some "IdleCommand.run:select#1"
  | .idleDoneW _ => none
  | .idleRunClose _ => some "IdleCommand.run:close#1"
  | .idleWait _ => some "IdleCommand.Wait:recv#1"
  | .closeSwap => some "Client.closeWithError:mutex.Lock#1"
  | .cancelOrphans _ => none
  | .loadDone .. => none
  | .send .. => some "Client.completeCommand:send#1"
  | .closeDone _ => some "Client.completeCommand:close#1"
  | .cancelConts .. => some "Client.completeCommand:mutex.Lock#1"
  | .setState _ => some "Client.setState:mutex.Lock#1"
  | .closeMsgs _ => some "Client.completeCommand:close#3"
  | .encUnlock => none
  | .closeBegin => some "Client.Close:mutex.Lock#1"
  | .closeJoin => some "Client.Close:recv#1"
  | .obsState => some "Client.State:mutex.Lock#1"
  | .obsMailbox => some "Client.Mailbox:mutex.Lock#1"
  | .connRead => some "conn:read"
  | .rdNext => none
  | .delByTag .. => some "Client.deletePendingCmdByTag:mutex.Lock#1"
  | .setCaps => some "Client.setCaps:mutex.Lock#1"
  | .popCont => some "Client.readContinueReq:mutex.Lock#1"
  | .contDone _ => some "ContinuationRequest.Done:close#1"
  | .enabledW => some "Client.handleEnabled:mutex.Lock#1"
  | .findByType => some "findPendingCmdByType:mutex.Lock#1"
  | .rdExit => some "Client.read:close#1"
  | .srv _ => none

/-- the label at which thread `t` actually parks for `i` in state `s`: the wait for a continuation
    request is not reached once the command's encoder has failed (Encoder.Literal returns first) -/
def labelAt (v : Variant) (s : St) (i : Instr) : Option String :=
  match i with
  | .contWait c false => if (s.cmd c).encErr ≠ 0 then none else label v i
  | _ => label v i

/-- every label at which the harness parks goroutines (the label universe of the repaired model) -/
def parkLabels : List String :=
  ["Client.beginCommand:encMutex.Lock#1", "Client.beginCommand:mutex.Lock#1",
   "Client.beginCommand:mutex.Unlock#1", "Client.registerContReq:mutex.Lock#1",
   "commandEncoder.Literal:mutex.Lock#1", "ContinuationRequest.Wait:recv#1", "Command.Wait:recv#1",
   "FetchCommand.Next:recv#1", "Client.WaitGreeting:select#1", "Client.Caps:mutex.Lock#1",
   "Client.search:mutex.Lock#1", "Client.Idle:go#1", "IdleCommand.Close:close#1",
   "IdleCommand.Close:recv#1", "IdleCommand.run:select#1", "IdleCommand.run:close#1",
   "IdleCommand.Wait:recv#1", "Client.closeWithError:mutex.Lock#1", "Client.completeCommand:send#1",
   "Client.completeCommand:close#1", "Client.completeCommand:mutex.Lock#1",
   "Client.setState:mutex.Lock#1", "Client.completeCommand:close#3", "Client.Close:mutex.Lock#1",
   "Client.Close:recv#1", "Client.State:mutex.Lock#1", "Client.Mailbox:mutex.Lock#1", "conn:read",
   "Client.deletePendingCmdByTag:mutex.Lock#1", "Client.setCaps:mutex.Lock#1",
   "Client.readContinueReq:mutex.Lock#1", "ContinuationRequest.Done:close#1",
   "Client.handleEnabled:mutex.Lock#1", "findPendingCmdByType:mutex.Lock#1", "Client.read:close#1"]

/-- labels the instrumented code may pass that the model does not park at: the ends of critical
    sections whose following code is thread-local, the cancellation of a continuation request
    (inside the `cancelConts` section), and what runs before the schedule starts (New, greeting) -/
def passLabels : List String :=
  ["New:go#1", "Client.setState:mutex.Unlock#1", "Client.readResponseData:close#1",
   "Client.setCaps:mutex.Unlock#1", "Client.Caps:mutex.Unlock#1", "Client.Close:mutex.Unlock#1",
   "Client.closeWithError:mutex.Unlock#1", "Client.completeCommand:mutex.Unlock#1",
   "Client.registerContReq:mutex.Unlock#1", "Client.readContinueReq:mutex.Unlock#1",
   "Client.handleEnabled:mutex.Unlock#1", "commandEncoder.Literal:mutex.Unlock#1",
   "commandEncoder.end:encMutex.Unlock#1", "ContinuationRequest.Cancel:close#1",
   "Client.search:mutex.Unlock#1"]

/-! ### Scenarios -/

/-- the program of one command submission followed by the consumption of its result -/
def opProg (v : Variant) (k : Kind) (c : Nat) : List Instr :=
  let begin_ : List Instr := [.encLock, .register c, .postReg c]
  match k with
  | .noop | .enable => begin_ ++ [.flush c .line .final, .wait c, .opEnd]
  | .fetch => begin_ ++ [.flush c .line .final, .fetchNext c, .wait c, .opEnd]
  | .search => [.capsSel, .capsLock false, .searchEnabled] ++ begin_ ++ [.flush c .line .final, .wait c, .opEnd]
  | .login => begin_ ++ [.regCont c, .flush c .head .lit, .contWait c false, .flush c .tail .final, .wait c, .opEnd]
  | .login2 =>
    begin_ ++ [.regCont c, .flush c .head .lit, .contWait c false, .regCont c, .flush c .head2 .lit,
               .contWait c false, .flush c .tail .final, .wait c, .opEnd]
  | .append => begin_ ++ [.litCaps, .regCont c, .flush c .head .lit, .contWait c false, .flush c .tail .final, .wait c, .opEnd]
  | .idle =>
    (if v.idleUnderEnc then begin_ ++ [.regCont c] else .regCont c :: begin_) ++
    [.flush c .head .idle, .contWait c true, .idleGo c, .idleStop c, .idleJoin c, .idleWait c, .wait c, .opEnd]

structure Scenario where
  /-- per submitter, the kinds of the commands it submits one after the other -/
  subs : List (List Kind)
  closes : Nat          -- number of Close calls of the closer thread
  observer : List Nat   -- 0 = State, 1 = Mailbox, 2 = Caps
  server : List SrvAct
  deriving Repr

/-- command ids are allocated submitter by submitter -/
def cmdBase : List (List Kind) → Nat → Nat
  | [], _ => 0
  | _, 0 => 0
  | ks :: rest, i + 1 => ks.length + cmdBase rest i

def progOfKinds (v : Variant) : List Kind → Nat → List Instr
  | [], _ => []
  | k :: ks, c => opProg v k c ++ progOfKinds v ks (c + 1)

def obsProg : List Nat → List Instr
  | [] => []
  | 0 :: r => .obsState :: obsProg r
  | 1 :: r => .obsMailbox :: obsProg r
  | _ :: r => .capsSel :: .capsLock true :: obsProg r

def closerProg : Nat → List Instr
  | 0 => []
  | n + 1 => .closeBegin :: .closeJoin :: closerProg n

def allKinds (sc : Scenario) : List Kind := sc.subs.flatMap id

def kindOf (sc : Scenario) (c : Nat) : Kind := (allKinds sc).getD c .noop

def subProg (v : Variant) (sc : Scenario) (i : Nat) : List Instr :=
  match sc.subs[i]? with
  | none => []
  | some ks => progOfKinds v ks (cmdBase sc.subs i)

def init (v : Variant) (sc : Scenario) : St :=
  { cmd := fun c => { kind := kindOf sc c },
    prog := fun t =>
      if t = tReader then [.connRead]
      else if t = tServer then sc.server.map .srv
      else if t = tCloser then closerProg sc.closes
      else if t = tObserver then obsProg sc.observer
      else if t < 4 + sc.subs.length then subProg v sc (t - 4)
      else [] }

def numCmds (sc : Scenario) : Nat := (allKinds sc).length

/-- thread ids that can ever have a program -/
def threads (sc : Scenario) : List Nat :=
  [tReader, tServer, tCloser, tObserver] ++ (List.range sc.subs.length).map tSub ++
  (List.range sc.subs.length).map fun i => idleTid (tSub i)

def quiescent (sc : Scenario) (s : St) : Bool :=
  (threads sc).all fun t => t = tServer || (s.prog t).isEmpty

/-- the head instruction of `t` would change the state -/
def enabled (v : Variant) (s : St) (t : Nat) : Bool :=
  if s.crashed then false else
  if t ≥ 100 then
    (decide (t - 100 < maxThreads) &&
     match s.prog (t - 100) with
     | .capsSel :: .capsLock _ :: _ => s.decClosed
     | _ => false) else
  if t ≥ maxThreads then false else
  match s.prog t with
  | [] => false
  | i :: _ =>
    match i with
    | .encLock => s.enc.isNone
    | .register c => s.holds t && !(s.cmd c).registered
    | .postReg _ | .litCaps | .encUnlock | .idleDoneW _ => s.holds t
    | .flush c w _ => s.holds t && !(v.idleUnderEnc && isHeadKind w && decide (s.unfl ≠ some c))
    | .regCont _ => !v.idleUnderEnc || s.holds t
    | .contWait c idle =>
      s.holds t &&
      ((!idle && decide ((s.cmd c).encErr ≠ 0)) ||
       s.contSt (s.cmd c).cont == .done || s.contSt (s.cmd c).cont == .cancelled || s.contSt (s.cmd c).cont == .refused)
    | .idleGo _ => s.holds t && (s.prog (idleTid t)).isEmpty && !decide (maxThreads ≤ idleTid t)
    | .wait c => let r := s.cmd c; r.chanInit && ((decide (r.sent ≥ 1) && !r.waited) || decide (r.closed ≥ 1))
    | .fetchNext c => decide ((s.cmd c).streamClosed ≥ 1)
    | .idleJoin c | .idleWait c => (s.cmd c).idleDone
    | .idleRunSel c => (s.cmd c).idleStopped
    | .send c _ init => let rc := s.cmd c; init && (decide (rc.closed ≥ 1) || !(decide (rc.sent ≥ 1) && !rc.waited))
    | .closeJoin => s.decClosed
    | .connRead => !s.inbox.isEmpty || s.rerr || s.connClosed || s.srvClosed
    | .srv a =>
      !s.srvClosed &&
      (match a with
       | .reply _ _ => !(unanswered s).isEmpty
       | .cont => !(openHeads s).isEmpty
       | _ => true)
    | _ => true

/-! ### The field-access table (lockset discipline)

  For every instruction: which fields of `Client` / `Command` the corresponding Go code touches and
  which locks the goroutine holds at that moment. Written from the code next to `exec`; the
  -race workloads support that nothing is missing. -/

inductive Field
  | state | caps | enabled | mailbox | cmdTag | pendingCmds | contReqs | closed
  | cmdTagField   -- Command.tag
  | cmdDone       -- Command.done (the channel value, not the channel's contents)
  deriving DecidableEq, Repr

inductive Lock | mutex | encMutex
  deriving DecidableEq, Repr

structure Access where
  field : Field
  write : Bool
  locks : List Lock
  /-- the write happens before the object becomes reachable by other goroutines (it is published
      by the same critical section, after this write) -/
  prePublish : Bool := false
  deriving DecidableEq, Repr

def accesses (v : Variant) : Instr → List Access
  | .register _ =>
    [⟨.cmdTag, true, [.mutex, .encMutex], false⟩, ⟨.pendingCmds, true, [.mutex, .encMutex], false⟩,
     ⟨.caps, false, [.mutex, .encMutex], false⟩, ⟨.enabled, false, [.mutex, .encMutex], false⟩] ++
    (if v.initFirst then [⟨.cmdTagField, true, [.mutex, .encMutex], true⟩, ⟨.cmdDone, true, [.mutex, .encMutex], true⟩] else [])
  | .postReg _ =>
    if v.initFirst then [] else [⟨.cmdTagField, true, [.encMutex], false⟩, ⟨.cmdDone, true, [.encMutex], false⟩]
  | .regCont _ => [⟨.contReqs, true, [.mutex], false⟩]
  | .litCaps => [⟨.caps, false, [.mutex, .encMutex], false⟩]
  | .capsLock _ => [⟨.caps, false, [.mutex], false⟩]
  | .searchEnabled => [⟨.enabled, false, if v.enabledGuarded then [.mutex] else [], false⟩]
  | .closeSwap =>
    [⟨.state, true, [.mutex], false⟩, ⟨.pendingCmds, true, [.mutex], false⟩] ++
    (if v.cancelOnClose then [⟨.contReqs, true, [.mutex], false⟩] else [])
  | .loadDone _ _ => [⟨.cmdDone, false, [], false⟩]
  | .cancelConts .. => [⟨.contReqs, true, [.mutex], false⟩]
  | .setState _ => [⟨.state, true, [.mutex], false⟩, ⟨.mailbox, true, [.mutex], false⟩]
  | .closeBegin => [⟨.closed, true, [.mutex], false⟩]
  | .obsState => [⟨.state, false, [.mutex], false⟩]
  | .obsMailbox => [⟨.mailbox, false, [.mutex], false⟩]
  | .delByTag .. => [⟨.pendingCmds, true, [.mutex], false⟩, ⟨.cmdTagField, false, [.mutex], false⟩]
  | .setCaps => [⟨.caps, true, [.mutex], false⟩]
  | .popCont => [⟨.contReqs, true, [.mutex], false⟩]
  | .enabledW => [⟨.enabled, true, [.mutex], false⟩]
  | .findByType => [⟨.pendingCmds, false, [.mutex], false⟩]
  | _ => []

/-- one representative per instruction constructor (the table does not depend on the arguments) -/
def instrKinds : List Instr :=
  [.encLock, .register 0, .postReg 0, .flush 0 .line .final, .regCont 0, .litCaps, .contWait 0 false, .wait 0,
   .fetchNext 0, .capsSel, .capsLock false, .searchEnabled, .opEnd, .idleGo 0, .idleStop 0, .idleJoin 0,
   .idleRunSel 0, .idleDoneW 0, .idleRunClose 0, .idleWait 0, .closeSwap, .cancelOrphans [], .loadDone 0 .err,
   .send 0 .err true, .closeDone 0, .cancelConts 0 .err, .setState .auth, .closeMsgs 0, .encUnlock, .closeBegin,
   .closeJoin, .obsState, .obsMailbox, .connRead, .rdNext, .delByTag 0 .ok false, .setCaps, .popCont, .contDone 0,
   .enabledW, .findByType, .rdExit, .srv .close]

def allAccesses (v : Variant) : List Access := instrKinds.flatMap (accesses v)

/-- the discipline for one field: every access holds `c.mutex`, or the field is written only
    before its object is published and merely read afterwards -/
def guardedField (v : Variant) (f : Field) : Bool :=
  let as := (allAccesses v).filter (·.field = f)
  as.all (fun a => a.locks.contains .mutex) ||
  as.all (fun a => if a.write then a.prePublish else true)

def allFields : List Field :=
  [.state, .caps, .enabled, .mailbox, .cmdTag, .pendingCmds, .contReqs, .closed, .cmdTagField, .cmdDone]

def guardedAll (v : Variant) : Bool := allFields.all (guardedField v)

end GoImap.ClientConc
