/-
  M1 — executable mirror of /repo/internal/imapnum/numset.go.
  Go `uint32` values are `Nat`s below `W = 2^32`; the one expression that can wrap in Go
  (`s.Stop+1` in `Merge`) carries the wrap explicitly.  `0` stands for "*" exactly as in Go.
-/
import GoImap.Util
namespace GoImap.NumSet

def W : Nat := 4294967296   -- 2^32

structure Range where
  start : Nat
  stop  : Nat
deriving Repr, DecidableEq, BEq

/-- numset.go Range.Contains -/
def Range.contains (s : Range) (q : Nat) : Bool :=
  if q = 0 then s.stop = 0
  else s.start ≠ 0 && s.start ≤ q && (q ≤ s.stop || s.stop = 0)

/-- numset.go Range.Less -/
def Range.less (s : Range) (q : Nat) : Bool :=
  (s.stop < q || q = 0) && s.stop ≠ 0

/-- numset.go Range.Merge; `(s.stop + 1) % W` is the uint32 wrap of `s.Stop+1` -/
def Range.merge (s t : Range) : Range × Bool :=
  if s = t then (s, true)
  else if s.start ≠ 0 && t.start ≠ 0 then
    let s' := if s.start > t.start then t else s
    let t' := if s.start > t.start then s else t
    if (s'.stop ≥ t'.stop && t'.stop ≠ 0) || s'.stop = 0 then (s', true)
    else if (s'.stop + 1) % W ≥ t'.start || s'.stop = W - 1 then (⟨s'.start, t'.stop⟩, true)
    else (s, false)
  else if s.start = 0 then
    if t.stop = 0 then (t, true) else (s, false)
  else if s.stop = 0 then (s, true)
  else (s, false)

abbrev Set := List Range

def zeroR : Range := ⟨0, 0⟩

/-- numset.go Set.search loop (binary search), fuel = length bounds the iterations -/
def searchLoop (s : Set) (q : Nat) : Nat → Nat → Nat → Nat × Nat
  | 0, lo, hi => (lo, hi)
  | fuel+1, lo, hi =>
    if lo < hi then
      let mid := (lo + hi) / 2
      if (s.getD mid zeroR).less q then searchLoop s q fuel (mid+1) hi
      else searchLoop s q fuel lo mid
    else (lo, hi)

/-- numset.go Set.search -/
def search (s : Set) (q : Nat) : Nat × Bool :=
  if s.length = 0 then (0, false) else
  let lo := (searchLoop s q s.length 0 (s.length - 1)).1
  let r := s.getD lo zeroR
  if r.less q then (s.length, false) else (lo, r.contains q)

/-- numset.go insertAt -/
def insertAt (s : Set) (i : Nat) (v : Range) : Set := s.take i ++ v :: s.drop i

/-- the forward-merge loop at the end of `insert`: `cur` (= s[i]) absorbs the following
    entries while they are mergeable -/
def mergeFwd (cur : Range) : Set → Set
  | [] => [cur]
  | r :: rest =>
    if (cur.merge r).2 then mergeFwd (cur.merge r).1 rest else cur :: r :: rest

/-- numset.go Set.insert -/
def insert (s : Set) (v : Range) : Set :=
  let i := (search s v.start).1
  let prev := s.getD (i-1) zeroR
  let merged := i > 0 && (prev.merge v).2
  -- `s[i-1], merged = s[i-1].Merge(v)`: assigns even when !ok (Merge then returns s[i-1])
  let s1 := if i > 0 then s.set (i-1) (prev.merge v).1 else s
  if i = s.length then
    if !merged then insertAt s1 i v else s1
  else if merged then
    s1.take (i-1) ++ mergeFwd (s1.getD (i-1) zeroR) (s1.drop i)
  else
    let cur := s1.getD i zeroR
    if !(cur.merge v).2 then insertAt s1 i v
    else s1.take i ++ mergeFwd (cur.merge v).1 (s1.drop (i+1))

def addNum (s : Set) (q : Nat) : Set := insert s ⟨q, q⟩

/-- numset.go Set.AddRange -/
def addRange (s : Set) (a b : Nat) : Set :=
  if (b < a && b ≠ 0) || a = 0 then insert s ⟨b, a⟩ else insert s ⟨a, b⟩

def addSet (s : Set) (t : Set) : Set := t.foldl insert s

def contains (s : Set) (q : Nat) : Bool := (search s q).2 && q ≠ 0

def dynamic (s : Set) : Bool :=
  match s.getLast? with
  | some r => r.stop = 0
  | none => false

/-- numset.go Range.append + Set.Nums (after the repair of the uint32 wrap in the loop):
    `none` is Go's `ok = false`. -/
def Range.nums (r : Range) : Option (List Nat) :=
  if r.start = 0 || r.stop = 0 then none
  else some (List.range' r.start (r.stop + 1 - r.start))

def nums : Set → Option (List Nat)
  | [] => some []
  | r :: rest =>
    match r.nums, nums rest with
    | some a, some b => some (a ++ b)
    | _, _ => none

/-- The loop as shipped before the repair: `for n := Start; n <= Stop; n++` with a uint32 `n`
    never exits when `Stop = 2^32-1`. -/
def Range.legacyNumsDiverges (r : Range) : Bool :=
  r.start ≠ 0 && r.stop = W - 1

/-! ### decimal printing (strconv.AppendUint) and parsing (strconv.ParseUint base 10, 32 bit) -/

def digitsAux : Nat → Nat → List Char → List Char
  | 0, _, acc => acc
  | fuel+1, n, acc =>
    let acc' := Char.ofNat (48 + n % 10) :: acc
    if n / 10 = 0 then acc' else digitsAux fuel (n / 10) acc'

def digits (n : Nat) : List Char := digitsAux (n + 1) n []

def Range.toChars (v : Range) : List Char :=
  if v.start = 0 then ['*']
  else if v.start = v.stop then digits v.start
  else if v.stop = 0 then digits v.start ++ [':', '*']
  else digits v.start ++ ':' :: digits v.stop

/-- numset.go Set.String -/
def toChars : Set → List Char
  | [] => []
  | [r] => r.toChars
  | r :: rest => r.toChars ++ ',' :: toChars rest

def toStr (s : Set) : String := String.ofList (toChars s)

def isDigit (c : Char) : Bool := '0' ≤ c && c ≤ '9'

def digitVal (c : Char) : Nat := c.toNat - 48

def valOf (cs : List Char) : Nat := cs.foldl (fun n c => n * 10 + digitVal c) 0

/-- numset.go parseNum: ParseUint(v,10,32) succeeded and v[0] != '0', or v == "*" -/
def parseNum (v : List Char) : Option Nat :=
  if !v.isEmpty && v.all isDigit && valOf v < W && v.head? ≠ some '0' then some (valOf v)
  else if v = ['*'] then some 0
  else none

def splitOn (c : Char) : List Char → List (List Char)
  | [] => [[]]
  | x :: xs =>
    match splitOn c xs with
    | [] => [[]]           -- unreachable
    | h :: t => if x = c then [] :: h :: t else (x :: h) :: t

/-- first `:` splits (strings.IndexRune) -/
def cutColon : List Char → Option (List Char × List Char)
  | [] => none
  | x :: xs =>
    if x = ':' then some ([], xs)
    else match cutColon xs with
      | none => none
      | some (a, b) => some (x :: a, b)

/-- numset.go parseNumRange -/
def parseNumRange (v : List Char) : Option Range :=
  match cutColon v with
  | none => (parseNum v).map fun n => ⟨n, n⟩
  | some (a, b) =>
    match parseNum a, parseNum b with
    | some x, some y =>
      if (y < x && y ≠ 0) || x = 0 then some ⟨y, x⟩ else some ⟨x, y⟩
    | _, _ => none

def parseItems : List (List Char) → Set → Option Set
  | [], s => some s
  | it :: rest, s =>
    match parseNumRange it with
    | none => none
    | some r => parseItems rest (addRange s r.start r.stop)

/-- numset.go ParseSet -/
def parseSet (t : List Char) : Option Set := parseItems (splitOn ',' t) []

end GoImap.NumSet
