/-
  C18 — which syntax the client chooses for its arguments, and when the bytes reach the connection.

  Mirrors, on top of the wire encoder model `GoImap.Wire` (Model/Wire.lean, reused — the choice
  quoted / synchronising literal / non-synchronising literal is `Wire.validQuoted`, `Wire.needSync`,
  `Wire.litHeader`, `Wire.encQuoted`; Lemmas/ClientSyntax.lean proves that the pieces below are
  exactly what `Wire.encString` / `Wire.encMailbox` / `Wire.encFlag` write):

  * /repo/capability.go `CapSet.Has` and its implication table (`has`);
  * /repo/imapclient/client.go `beginCommand` (`cfgOf`: how QuotedUTF8 / LiteralMinus / LiteralPlus
    are derived from `c.caps` / `c.enabled`), `commandEncoder.Literal` (`appendSync`), the
    continuation-request hand-shake of `Encoder.Literal` + `registerContReq` / `readContinueReq` /
    `completeCommand` as seen by the command that holds the encoder lock (`stepPiece`, `answer`,
    `finish`), with the FIFO `Client.contReqs` carried from one command to the next (`execSeq`);
  * the command writers of /repo/imapclient/*.go that take string arguments (`Cmd.parts`), among
    them /repo/imapclient/search.go `search` (the CHARSET rule) and `writeSearchKey`.

  Below the modelled interface: `bufio.Writer` is "bytes handed over are delivered at the next
  flush" (its automatic flush when 4096 bytes are pending only matters for a command that fails
  inside the encoder, where the model says how much was flushed explicitly: what preceded the last
  synchronising literal); `strings.ToUpper` on header-field names is ASCII only; mailbox names that
  are not valid UTF-8 are `unmodelled` (as in Model/Wire).
-/
import GoImap.Model.Wire
namespace GoImap.ClientSyntax
open GoImap.Wire

abbrev Bytes := Wire.Bytes

def ascii (s : String) : Bytes := s.toList.map Char.toNat

/-! ## capabilities (capability.go) -/

/-- the capability names `CapSet.Has` treats specially, the thirteen folded into IMAP4rev2, and
    `other` for any name that is none of these -/
inductive Cap where
  | imap4rev1 | imap4rev2
  | namespace_ | unselect | uidPlus | esearch | searchRes | enable | idle | saslIR | listExtended
  | listStatus | move | literalMinus | statusSize
  | literalPlus | condStore | qresync | utf8Accept | utf8Only
  | other
deriving DecidableEq, Repr

/-- `imap4rev2Caps.has(c)` (capability.go:77-91) -/
def Cap.inRev2 : Cap → Bool
  | .namespace_ | .unselect | .uidPlus | .esearch | .searchRes | .enable | .idle | .saslIR
  | .listExtended | .listStatus | .move | .literalMinus | .statusSize => true
  | _ => false

def Cap.same : Cap → Cap → Bool
  | .imap4rev1, .imap4rev1 | .imap4rev2, .imap4rev2 | .namespace_, .namespace_ | .unselect, .unselect
  | .uidPlus, .uidPlus | .esearch, .esearch | .searchRes, .searchRes | .enable, .enable | .idle, .idle
  | .saslIR, .saslIR | .listExtended, .listExtended | .listStatus, .listStatus | .move, .move
  | .literalMinus, .literalMinus | .statusSize, .statusSize | .literalPlus, .literalPlus
  | .condStore, .condStore | .qresync, .qresync | .utf8Accept, .utf8Accept | .utf8Only, .utf8Only
  | .other, .other => true
  | _, _ => false

/-- `set.has(c)`: plain membership in the map -/
def mem (set : List Cap) (c : Cap) : Bool := set.any (Cap.same c)

/-- `CapSet.Has` (capability.go:111-136; the APPENDLIMIT= prefix rule is outside this table) -/
def has (set : List Cap) (c : Cap) : Bool :=
  if mem set c then true
  else if mem set .imap4rev2 && c.inRev2 then true
  else if Cap.same c .literalMinus && mem set .literalPlus then true
  else if Cap.same c .condStore && mem set .qresync then true
  else if Cap.same c .utf8Accept && mem set .utf8Only then true
  else false

/-- `beginCommand` (client.go:396-406): the encoder mode of one command -/
def cfgOf (caps enabled : List Cap) : Cfg :=
  { side := .client
    quotedUTF8 := has caps .imap4rev2 || has enabled .utf8Accept
    literalMinus := has caps .literalMinus
    literalPlus := has caps .literalPlus }

/-! ## how one string is rendered -/

/-- the outcome of `Encoder.String`'s decision -/
inductive Rendering where
  | quoted
  | syncLit (n : Nat)
  | nonSyncLit (n : Nat)
deriving DecidableEq, Repr

/-- `Encoder.String` → `validQuoted` → `stringLiteral` (encoder.go:102-150) -/
def rendering (cfg : Cfg) (s : Bytes) : Rendering :=
  if validQuoted cfg s then .quoted
  else if needSync cfg s.length then .syncLit s.length
  else .nonSyncLit s.length

/-- `commandEncoder.Literal` (client.go:1110-1123): is the APPEND literal synchronising? -/
def appendSync (caps : List Cap) (size : Nat) : Bool :=
  size > 4096 || !has caps .literalMinus

/-! ## what a command hands to the encoder -/

/-- one call on the encoder -/
inductive Part where
  /-- `Atom` / `SP` / `Special` / `Number` / `NumSet` with fixed, well-formed text -/
  | raw (b : Bytes)
  /-- `Encoder.String` -/
  | str (s : Bytes)
  /-- `Encoder.Mailbox` -/
  | mbox (s : Bytes)
  /-- `Encoder.Flag` -/
  | flag (f : Bytes)
  /-- `Encoder.Quoted` called directly (no check of the content) -/
  | quotedDirect (s : Bytes)
  /-- `commandEncoder.Literal(len payload)` followed by the payload and `Close` (APPEND) -/
  | appendLit (payload : Bytes)
deriving DecidableEq, Repr

/-- what one encoder call does, seen from the connection -/
inductive Piece where
  /-- bytes handed to the buffered writer -/
  | bytes (b : Bytes)
  /-- a non-synchronising literal: header and payload handed to the buffered writer -/
  | nonSyncLit (hdr payload : Bytes)
  /-- a synchronising literal: header, flush, wait for the continuation request, then payload -/
  | syncLit (hdr payload : Bytes)
  /-- the encoder refuses the value (`enc.setErr`) -/
  | fail
deriving DecidableEq, Repr

def litPiece (cfg : Cfg) (sync : Bool) (s : Bytes) : Piece :=
  if sync then .syncLit (litHeader cfg s.length true) s
  else .nonSyncLit (litHeader cfg s.length false) s

/-- `Encoder.String` on an encoder without error -/
def strPiece (cfg : Cfg) (s : Bytes) : Piece :=
  match rendering cfg s with
  | .quoted => .bytes (encQuoted s)
  | .syncLit _ => litPiece cfg true s
  | .nonSyncLit _ => litPiece cfg false s

/-- `none` = unmodelled (a mailbox name that is not valid UTF-8) -/
def piece (caps : List Cap) (cfg : Cfg) : Part → Option Piece
  | .raw b => some (.bytes b)
  | .str s => some (strPiece cfg s)
  | .mbox name =>
    if equalFoldInbox name then some (.bytes inboxBytes)
    else (Utf7.utf8dec name).map fun cps => strPiece cfg (Utf7.encode cps)
  | .flag f => some (if f ≠ [92, 42] && !isValidFlag f then .fail else .bytes f)
  | .quotedDirect s => some (.bytes (encQuoted s))
  | .appendLit p => some (litPiece cfg (appendSync caps p.length) p)

def pieces (caps : List Cap) (cfg : Cfg) : List Part → Option (List Piece)
  | [] => some []
  | p :: ps =>
    match piece caps cfg p, pieces caps cfg ps with
    | some x, some xs => some (x :: xs)
    | _, _ => none

/-! ## the hand-shake: one command, the server's answers to its synchronising literals -/

/-- what the server does when it sees a synchronising literal header -/
inductive Act where
  | cont   -- `+ …`
  | no     -- tagged NO for the command
  | bad    -- tagged BAD for the command
deriving DecidableEq, Repr

/-- why the command stopped writing -/
inductive Stop where
  | refusedNo | refusedBad   -- `sync.Wait()` returned the tagged NO / BAD (completeCommand cancels the request)
  | encErr                   -- the encoder's own sticky error
  | hang                     -- `sync.Wait()` never returns: the server's `+` went to another request
deriving DecidableEq, Repr

structure Run where
  /-- bytes that reached the connection, in order -/
  wire : Bytes := []
  /-- bytes in the `bufio.Writer`, delivered by the next flush -/
  pending : Bytes := []
  /-- the server's actions with the number of client bytes on the connection at that moment -/
  acts : List (Nat × Act) := []
  /-- the server's answers still to come (the last one repeats; none = continuation requests) -/
  script : List Act := []
  stop : Option Stop := none
  /-- `Client.contReqs`: the owners (tag numbers) of the queued continuation requests, oldest first -/
  queue : List Nat := []
  /-- the tag number of the command being written -/
  me : Nat := 0
deriving DecidableEq, Repr

def nextAct : List Act → Act × List Act
  | [] => (.cont, [])
  | [a] => (a, [a])
  | a :: r => (a, r)

/-- the server answered the synchronising literal whose header ends the flushed `wire`.
    `+`: `readContinueReq` hands it to the OLDEST queued request — the payload follows only if that
    is this command's; tagged NO/BAD: `completeCommand` cancels this command's requests. -/
def answer (r : Run) (wire payload : Bytes) : Run :=
  let (a, rest) := nextAct r.script
  let acts := r.acts ++ [(wire.length, a)]
  match a with
  | .cont =>
    match r.queue with
    | h :: q =>
      if h = r.me then { r with wire := wire, pending := payload, acts := acts, script := rest, queue := q }
      else { r with wire := wire, pending := [], acts := acts, script := rest, queue := q, stop := some .hang }
    | [] => { r with wire := wire, pending := [], acts := acts, script := rest, stop := some .hang }
  | .no => { r with wire := wire, pending := [], acts := acts, script := rest, stop := some .refusedNo,
                    queue := r.queue.filter (· ≠ r.me) }
  | .bad => { r with wire := wire, pending := [], acts := acts, script := rest, stop := some .refusedBad,
                     queue := r.queue.filter (· ≠ r.me) }

/-- one encoder call. Once the sticky error is set (`enc.err != nil`) `writeString` does nothing,
    `Encoder.Literal` hands out an `errorWriter`, and `registerContReq` does not queue a request for
    a command the server has already answered: nothing more is written, nothing is left behind.
    A synchronising literal: `registerContReq` queues the request, `Literal` writes the header,
    `CRLF()` flushes, `sync.Wait()` blocks until the request is answered or cancelled (`answer`). -/
def stepPiece (r : Run) (p : Piece) : Run :=
  if r.stop.isSome then r else
  match p with
  | .bytes b => { r with pending := r.pending ++ b }
  | .nonSyncLit hdr payload => { r with pending := r.pending ++ hdr ++ payload }
  | .fail => { r with stop := some .encErr }
  | .syncLit hdr payload =>
    answer { r with queue := r.queue ++ [r.me] } (r.wire ++ r.pending ++ hdr) payload

def runPieces (r : Run) : List Piece → Run
  | [] => r
  | p :: ps => runPieces (stepPiece r p) ps

/-- `commandEncoder.end` → `flush` → `Encoder.CRLF`: with the error set nothing is flushed -/
def finish (r : Run) : Run :=
  if r.stop.isSome then r
  else { r with wire := r.wire ++ r.pending ++ [13, 10], pending := [] }

/-! ## the commands -/

def sp : Part := .raw [32]
def a (s : String) : Part := .raw (ascii s)

def toUpperAscii (c : Nat) : Nat := if 97 ≤ c && c ≤ 122 then c - 32 else c
def upperAscii (s : Bytes) : Bytes := s.map toUpperAscii

/-- a search criteria value with exactly one populated field (what the harness builds) -/
inductive Crit where
  | body (s : Bytes)
  | text (s : Bytes)
  | header (k v : Bytes)
  | keyword (f : Bytes)
  | unkeyword (f : Bytes)
  | modseq (name typ : Bytes) (val : Nat)
  | not (c : Crit)
  | or (x y : Crit)
deriving DecidableEq, Repr

def isASCII (s : Bytes) : Bool := s.all (· ≤ 127)

/-- search.go searchCriteriaIsASCII: header fields, BODY, TEXT, recursively NOT / OR — nothing else -/
def Crit.isASCII : Crit → Bool
  | .body s => ClientSyntax.isASCII s
  | .text s => ClientSyntax.isASCII s
  | .header k v => ClientSyntax.isASCII k && ClientSyntax.isASCII v
  | .keyword _ => true
  | .unkeyword _ => true
  | .modseq _ _ _ => true
  | .not c => c.isASCII
  | .or x y => x.isASCII && y.isASCII

/-- search.go flagSearchKey -/
def flagSearchKey (f : Bytes) : Option String :=
  if f = ascii "\\Answered" then some "ANSWERED"
  else if f = ascii "\\Deleted" then some "DELETED"
  else if f = ascii "\\Draft" then some "DRAFT"
  else if f = ascii "\\Flagged" then some "FLAGGED"
  else if f = ascii "\\Seen" then some "SEEN"
  else none

def addrHeaders : List Bytes := ["BCC", "CC", "FROM", "SUBJECT", "TO"].map ascii

/-- the MODSEQ entry name: routed through `Encoder.String` (after the repair) -/
def modseqName (s : Bytes) : Part := .str s

/-- search.go writeSearchKey for a one-field criteria; `nameP` renders the MODSEQ entry name -/
def Crit.partsWith (nameP : Bytes → Part) : Crit → List Part
  | .body s => [a "(BODY ", .str s, a ")"]
  | .text s => [a "(TEXT ", .str s, a ")"]
  | .header k v =>
    (if addrHeaders.contains (upperAscii k) then [a "(", .raw (upperAscii k)] else [a "(HEADER ", .str k])
      ++ [sp, .str v, a ")"]
  | .keyword f =>
    match flagSearchKey f with
    | some k => [a "(", a k, a ")"]
    | none => [a "(KEYWORD ", .flag f, a ")"]
  | .unkeyword f =>
    match flagSearchKey f with
    | some k => [a "(UN", a k, a ")"]
    | none => [a "(UNKEYWORD ", .flag f, a ")"]
  | .modseq name typ val =>
    [a "(MODSEQ"] ++ (if name ≠ [] && typ ≠ [] then [sp, nameP name, sp, .raw typ] else [])
      ++ [sp, .raw (if val ≠ 0 then digits val else [48]), a ")"]
  | .not c => [a "(NOT "] ++ c.partsWith nameP ++ [a ")"]
  | .or x y => [a "(OR "] ++ x.partsWith nameP ++ [sp] ++ y.partsWith nameP ++ [a ")"]

def Crit.parts : Crit → List Part := Crit.partsWith modseqName

/-- search.go `search`: CHARSET UTF-8 is named iff the server is not IMAP4rev2, UTF8=ACCEPT is not
    enabled and the criteria contain a non-ASCII string -/
def sendsCharset (caps enabled : List Cap) (c : Crit) : Bool :=
  !has caps .imap4rev2 && !has enabled .utf8Accept && !c.isASCII

/-- the probe commands: every client command that takes string arguments, with the fixed
    non-string parameters the harness uses (message set `1`, `(MESSAGES)`, `(STORAGE 5)`, …) -/
inductive Cmd where
  | login (u p : Bytes)
  | select (m : Bytes) (readOnly : Bool)
  | create (m : Bytes) | delete (m : Bytes) | rename (x y : Bytes)
  | subscribe (m : Bytes) | unsubscribe (m : Bytes)
  | list (ref pat : Bytes) | status (m : Bytes) | copy (m : Bytes) | move (m : Bytes)
  | append (m payload : Bytes)
  | getMetadata (m entry : Bytes) | setMetadata (m k v : Bytes)
  | getQuota (root : Bytes) | getQuotaRoot (m : Bytes) | setQuota (root : Bytes)
  | fetchHeader (field : Bytes)
  | search (uid : Bool) (c : Crit)
  | store (f : Bytes)
  | sort (c : Crit) | thread (c : Crit)
deriving DecidableEq, Repr

/-- everything after the tag: command name and arguments, as the encoder calls of the writer -/
def Cmd.partsWith (critP : Crit → List Part) (caps enabled : List Cap) : Cmd → List Part
  | .login u p => [a "LOGIN ", .str u, sp, .str p]                                    -- client.go Login
  | .select m ro => [a (if ro then "EXAMINE " else "SELECT "), .mbox m]               -- select.go Select
  | .create m => [a "CREATE ", .mbox m]                                               -- create.go Create
  | .delete m => [a "DELETE ", .mbox m]
  | .rename x y => [a "RENAME ", .mbox x, sp, .mbox y]
  | .subscribe m => [a "SUBSCRIBE ", .mbox m]
  | .unsubscribe m => [a "UNSUBSCRIBE ", .mbox m]
  | .list ref pat => [a "LIST ", .mbox ref, sp, .mbox pat]                            -- list.go List
  | .status m => [a "STATUS ", .mbox m, a " (MESSAGES)"]                              -- status.go Status
  | .copy m => [a "COPY 1 ", .mbox m]                                                 -- copy.go Copy
  | .move m => [a (if has caps .move then "MOVE 1 " else "COPY 1 "), .mbox m]         -- move.go Move
  | .append m p => [a "APPEND ", .mbox m, sp, .appendLit p]                           -- append.go Append
  | .getMetadata m e => [a "GETMETADATA ", .mbox m, a " (", .str e, a ")"]            -- metadata.go
  | .setMetadata m k v => [a "SETMETADATA ", .mbox m, a " (", .str k, sp, .str v, a ")"]
  | .getQuota r => [a "GETQUOTA ", .str r]                                            -- quota.go
  | .getQuotaRoot m => [a "GETQUOTAROOT ", .mbox m]
  | .setQuota r => [a "SETQUOTA ", .str r, a " (STORAGE 5)"]
  | .fetchHeader f => [a "FETCH 1 (BODY[HEADER.FIELDS (", .str f, a ")])"]             -- fetch.go
  | .search uid c =>                                                                  -- search.go search
    [a (if uid then "UID SEARCH " else "SEARCH ")]
      ++ (if sendsCharset caps enabled c then [a "CHARSET UTF-8 "] else []) ++ critP c
  | .store f => [a "STORE 1 +FLAGS (", .flag f, a ")"]                                -- store.go Store
  | .sort c => [a "SORT (DATE) UTF-8 "] ++ critP c                                    -- sort.go sort
  | .thread c => [a "THREAD REFERENCES UTF-8 "] ++ critP c                            -- thread.go thread

def Cmd.parts : List Cap → List Cap → Cmd → List Part := Cmd.partsWith Crit.parts

/-- `beginCommand`: tag `T<n>`, SP, then the writer's calls -/
def cmdParts (caps enabled : List Cap) (tagNo : Nat) (c : Cmd) : List Part :=
  [.raw (84 :: digits tagNo), sp] ++ c.parts caps enabled

/-- how the command ended for its caller (`hang`: it never did) -/
inductive Result where
  | ok | no | bad | err | hang
deriving DecidableEq, Repr

structure Outcome where
  wire : Bytes
  acts : List (Nat × Act)
  /-- `err`: the client closed the connection (`flush` → `closeWithError`) -/
  result : Result
deriving DecidableEq, Repr

def Run.outcome (r : Run) : Outcome :=
  { wire := r.wire, acts := r.acts,
    result := match r.stop with
      | none => .ok
      | some .refusedNo => .no
      | some .refusedBad => .bad
      | some .encErr => .err
      | some .hang => .hang }

/-- one command against a server that answers its synchronising literals as `script` says and the
    complete command with a tagged OK; `none` = unmodelled argument -/
def execFrom (queue : List Nat) (caps enabled : List Cap) (tagNo : Nat) (c : Cmd) (script : List Act) :
    Option (Outcome × List Nat) :=
  (pieces caps (cfgOf caps enabled) (cmdParts caps enabled tagNo c)).map fun ps =>
    let r := finish (runPieces { script := script, queue := queue, me := tagNo } ps)
    (r.outcome, r.queue)

def exec (caps enabled : List Cap) (tagNo : Nat) (c : Cmd) (script : List Act) : Option Outcome :=
  (execFrom [] caps enabled tagNo c script).map (·.1)

/-- two commands one after the other on the same connection (a NOOP in between takes a tag) -/
def execSeq (caps enabled : List Cap) (tagNo : Nat) (c1 : Cmd) (s1 : List Act) (c2 : Cmd) (s2 : List Act) :
    Option Outcome :=
  match execFrom [] caps enabled tagNo c1 s1 with
  | none => none
  | some (_, q) => (execFrom q caps enabled (tagNo + 2) c2 s2).map (·.1)

/-! ## the negotiated state between commands -/

/-- what the client remembers of the server's announcements: `Client.caps`, `Client.enabled` -/
structure Sess where
  caps : List Cap := []
  enabled : List Cap := []
deriving DecidableEq, Repr

/-- the places where the client changes that state -/
inductive SessStep where
  /-- `setCaps(caps)`: a capability list arrived — `[CAPABILITY …]` code of the greeting or of a
      tagged OK (readResponseTagged / readResponseData), or an untagged `* CAPABILITY` (handleCapability) -/
  | setCaps (l : List Cap)
  /-- `handleEnabled`: `* ENABLED …` adds the names to `c.enabled` -/
  | enabled (l : List Cap)
  /-- `completeCommand` of a successful UNAUTHENTICATE: `c.enabled = make(imap.CapSet)` -/
  | unauthDone
deriving DecidableEq, Repr

def Sess.step (s : Sess) : SessStep → Sess
  | .setCaps l => { s with caps := l }
  | .enabled l => { s with enabled := s.enabled ++ l }
  | .unauthDone => { s with enabled := [] }

def Sess.run (s : Sess) (steps : List SessStep) : Sess := steps.foldl Sess.step s

/-- a command written in session state `s`: `beginCommand` takes its snapshot of `c.caps` /
    `c.enabled` AFTER it has obtained the encoder lock, i.e. the state at the moment the command's
    first byte is written, whatever the state was when the caller asked for the command -/
def execIn (s : Sess) (tagNo : Nat) (c : Cmd) (script : List Act) : Option Outcome :=
  exec s.caps s.enabled tagNo c script

/-! ## behaviour before the repairs (kept for the counterexample theorems of Props/C18) -/
namespace Legacy

/-- `writeSearchKey` as shipped: `enc.Quoted(modSeq.MetadataName)` — no NUL/CR/LF or 8-bit check -/
def modseqName (s : Bytes) : Part := .quotedDirect s

def Crit.parts : Crit → List Part := Crit.partsWith Legacy.modseqName

def cmdParts (caps enabled : List Cap) (tagNo : Nat) (c : Cmd) : List Part :=
  [.raw (84 :: digits tagNo), sp] ++ c.partsWith Legacy.Crit.parts caps enabled

/-- `Encoder.Literal` as shipped did not look at the sticky error: after a refused synchronising
    literal a later NON-synchronising literal of the same command (header suppressed by
    `writeString`) still got a `literalWriter`, whose `Write` goes straight to the buffered writer. -/
def stepPiece (r : Run) (p : Piece) : Run :=
  if r.stop.isSome then
    match p with
    | .nonSyncLit _ payload => { r with pending := r.pending ++ payload }
    -- `stringLiteral` / `commandEncoder.Literal` still called `registerContReq`: a request for a
    -- command that has completed, which nothing ever cancels or answers
    | .syncLit _ _ => { r with queue := r.queue ++ [r.me] }
    | _ => r
  else ClientSyntax.stepPiece r p

def runPieces (r : Run) : List Piece → Run
  | [] => r
  | p :: ps => runPieces (Legacy.stepPiece r p) ps

/-- the leaked payload stays in the buffer and goes out in front of the next command (or at once,
    when it fills the buffer): either way it reaches the connection after the refusal -/
def finish (r : Run) : Run :=
  if r.stop.isSome then { r with wire := r.wire ++ r.pending, pending := [] }
  else ClientSyntax.finish r

def execFrom (queue : List Nat) (caps enabled : List Cap) (tagNo : Nat) (c : Cmd) (script : List Act) :
    Option (Outcome × List Nat) :=
  (pieces caps (cfgOf caps enabled) (Legacy.cmdParts caps enabled tagNo c)).map fun ps =>
    let r := Legacy.finish (Legacy.runPieces { script := script, queue := queue, me := tagNo } ps)
    (r.outcome, r.queue)

def exec (caps enabled : List Cap) (tagNo : Nat) (c : Cmd) (script : List Act) : Option Outcome :=
  (Legacy.execFrom [] caps enabled tagNo c script).map (·.1)

def execSeq (caps enabled : List Cap) (tagNo : Nat) (c1 : Cmd) (s1 : List Act) (c2 : Cmd) (s2 : List Act) :
    Option Outcome :=
  match Legacy.execFrom [] caps enabled tagNo c1 s1 with
  | none => none
  | some (_, q) => (Legacy.execFrom q caps enabled (tagNo + 2) c2 s2).map (·.1)

end Legacy

end GoImap.ClientSyntax
