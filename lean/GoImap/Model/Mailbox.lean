/-
  M10 — reference mailbox model; mirror of /repo/imapserver/imapmemserver/{mailbox,message,user,
  session,server}.go as driven by /repo/imapserver/{select,status,copy,move,expunge,store,fetch,
  search,list,append,create}.go and conn.go (`readCommand` tail: poll + tagged reply).

  Messages are abstract: (uid, flag set lower-cased, internal date as local seconds + zone, header
  list, body bytes); the raw message is `hdr lines ++ CRLF ++ body`. `go-message` header parsing is
  outside (well-formed single-part ASCII messages only); multipart sections, ENVELOPE, BODYSTRUCTURE,
  BINARY, SEARCHRES (`$`, RETURN (SAVE)), LSUB, IDLE are outside the model.
  Mailbox objects have an identity (`Mbox.id`, the Go pointer): a deleted or renamed mailbox stays
  selected by the sessions that had it open. Per-session update queues are `SessionTracker.queue`;
  sequence-number translation reuses `GoImap.Tracker.encode`.
  uint32 wrap of `uidNext` / `prevUidValidity` (2^32 appends/creates) is not modelled.
-/
import GoImap.Model.ListMatch
import GoImap.Model.Search
import GoImap.Model.Tracker
namespace GoImap.Mailbox
open GoImap

abbrev Str := Search.Str

def lower (s : Str) : Str := Search.lower s

/-- behaviour switches: the default is the repaired code, `Legacy.cfg` the code as shipped -/
structure Cfg where
  legacyPartial : Bool := false     -- message.go bodySection: `offset+size` overflow not saturated
  legacyMove : Bool := false        -- session.go Move: writes every EXPUNGE itself as well as queueing it
  legacyFetchZero : Bool := false   -- mailbox.go Fetch: messages whose encoded number is 0 are written
  legacyCopyEmpty : Bool := false   -- session.go Copy/Move: COPYUID with empty sets (encoder error mid-line)
  legacyStatusNil : Bool := false   -- status.go writeStatus: nil DeletedStorage dereferenced
deriving Repr

structure Message where
  uid : Nat
  flags : List Str          -- keys of `message.flags` (lower-cased, no duplicates)
  date : Int                -- internal date: seconds from Go's zero time, in the zone given at APPEND
  zone : Int                -- zone offset (seconds east of UTC)
  hdrs : List (Str × Str)   -- header fields as written (key, value)
  body : Str
  sentDay : Int             -- Date header truncated to its day (0 when absent)
  sentErr : Bool            -- Date header does not parse
deriving Repr, BEq

/-- the date `time.Now()` stands for (later than every date a history mentions) -/
def nowDate : Int := 70000000000

def hdrLine (kv : Str × Str) : Str := kv.1 ++ [58, 32] ++ kv.2 ++ [13, 10]

/-- `message.buf` -/
def raw (m : Message) : Str := m.hdrs.flatMap hdrLine ++ [13, 10] ++ m.body

def size (m : Message) : Nat := (raw m).length

/-- per-session queue entries (`trackerUpdate`) -/
inductive Upd where
  | expunge (k : Nat)
  | exists_ (prev n : Nat)
  | fetch (k uid : Nat) (flags : List Str)
deriving Repr, BEq

def Upd.toT : Upd → Tracker.Upd
  | .expunge k => .expunge k
  | .exists_ p n => .exists_ p n
  | .fetch k _ _ => .fetch k

structure Mbox where
  id : Nat
  name : Str
  uidValidity : Nat
  uidNext : Nat
  subscribed : Bool
  msgs : List Message
deriving Repr

structure Conn where
  id : Nat
  sel : Option Nat          -- selected mailbox object (UserSession.mailbox)
  queue : List Upd
deriving Repr

structure St where
  objs : List Mbox                 -- every mailbox object ever created
  names : List (Str × Nat)         -- User.mailboxes
  prevUidValidity : Nat
  nextId : Nat
  conns : List Conn
deriving Repr

def inboxName : Str := [73, 78, 66, 79, 88]

/-- state after `NewUser; user.Create("INBOX")` with `n` logged-in connections 1..n -/
def init (nconn : Nat) : St :=
  { objs := [⟨0, inboxName, 1, 1, false, []⟩], names := [(inboxName, 0)], prevUidValidity := 1, nextId := 1,
    conns := (List.range nconn).map fun i => ⟨i + 1, none, []⟩ }

def upperByte (c : Nat) : Nat := if 97 ≤ c ∧ c ≤ 122 then c - 32 else c

/-- decoder.go ExpectMailbox: INBOX is case-insensitive -/
def canonName (n : Str) : Str := if n.map upperByte == inboxName then inboxName else n

def dropTrailingSlash : Str → Str
  | [] => []
  | c :: r => match dropTrailingSlash r with
    | [] => if c = 47 then [] else [c]
    | r' => c :: r'

def St.getObj (st : St) (id : Nat) : Option Mbox := st.objs.find? (·.id == id)
def St.lookup (st : St) (name : Str) : Option Nat := st.names.lookup name
def St.getConn (st : St) (cid : Nat) : Option Conn := st.conns.find? (·.id == cid)
def St.setObj (st : St) (id : Nat) (f : Mbox → Mbox) : St :=
  { st with objs := st.objs.map fun o => if o.id == id then f o else o }
def St.setConn (st : St) (cid : Nat) (f : Conn → Conn) : St :=
  { st with conns := st.conns.map fun c => if c.id == cid then f c else c }

/-- MailboxTracker.queueUpdate: every session of the mailbox except `src` -/
def St.dispatch (st : St) (oid : Nat) (u : Upd) (src : Option Nat) : St :=
  { st with conns := st.conns.map fun c =>
      if c.sel == some oid && src != some c.id then { c with queue := c.queue ++ [u] } else c }

def St.dispatchAll (st : St) (oid : Nat) (us : List Upd) (src : Option Nat) : St :=
  us.foldl (fun s u => s.dispatch oid u src) st

/-! ### responses -/

inductive Spec where | none | header | text | mime
deriving Repr, BEq, DecidableEq

structure Section where
  obsolete : Nat := 0               -- 0: BODY[..]; 1 RFC822; 2 RFC822.HEADER; 3 RFC822.TEXT
  peek : Bool := false
  part : List Nat := []
  spec : Spec := .none
  fields : List Str := []
  fieldsNot : Bool := false
  range : Option (Nat × Nat) := none
deriving Repr, BEq

inductive Att where
  | uid (n : Nat)
  | flags (l : List Str)
  | date (t z : Int)
  | size (n : Nat)
  | section (s : Section) (origin : Option Nat) (data : Str)
  | opaque (s : Section) (origin : Option Nat)      -- a section go-message derives (part of a multipart / message/* body): not modelled
deriving Repr, BEq

inductive StatusKey where
  | messages | uidnext | uidvalidity | unseen | deleted | size | appendlimit | deletedStorage | recent
deriving Repr, BEq, DecidableEq

inductive Item where
  | exists_ (n : Nat)
  | recent (n : Nat)
  | expunge (n : Nat)
  | fetch (seq : Nat) (atts : List Att)
  | search (nums : List Nat)
  | esearch (uid : Bool) (all : List Nat) (min max count : Option Nat)
  | list (attrs : List Str) (name : Str)
  | status (name : Str) (kv : List (StatusKey × Option Nat))
  | copyuid (v : Nat) (src dst : List Nat)
  | uidvalidity (n : Nat)
  | uidnext (n : Nat)
  | flags (l : List Str)
  | permflags (l : List Str)
  | closed
  | unknown (s : String)
deriving Repr, BEq

inductive Status where | ok | no | bad | panic
deriving Repr, BEq, DecidableEq

inductive Code where
  | none
  | named (s : String)
  | appenduid (v u : Nat)
  | copyuid (v : Nat) (src dst : List Nat)
  | garbled
deriving Repr, BEq

structure Resp where
  status : Status
  code : Code := .none
  items : List Item := []
deriving Repr, BEq

def ok (items : List Item := []) (code : Code := .none) : Resp := ⟨.ok, code, items⟩
def no (code : String) (items : List Item := []) : Resp := ⟨.no, if code.isEmpty then .none else .named code, items⟩
def badClient : Resp := ⟨.bad, .named "CLIENTBUG", []⟩
def panicResp : Resp := ⟨.panic, .none, []⟩

/-! ### flags -/

def seenFlag : Str := [92, 115, 101, 101, 110]              -- \seen
def deletedFlag : Str := [92, 100, 101, 108, 101, 116, 101, 100]   -- \deleted
def wildcardFlag : Str := [92, 42]

def addFlag (l : List Str) (f : Str) : List Str := if l.contains f then l else l ++ [f]
def addFlags (l : List Str) (fs : List Str) : List Str := fs.foldl addFlag l
def delFlags (l : List Str) (fs : List Str) : List Str := l.filter fun f => !fs.contains f

inductive StoreOp where | set | add | del
deriving Repr, BEq, DecidableEq

/-- message.go store (flags canonicalised by canonicalFlag = ToLower) -/
def storeFlags (op : StoreOp) (old : List Str) (fs : List Str) : List Str :=
  match op with
  | .set => addFlags [] (fs.map lower)
  | .add => addFlags old (fs.map lower)
  | .del => delFlags old (fs.map lower)

/-! ### body sections (message.go bodySection) -/

inductive Out where
  | ok (b : Str)
  | panic
deriving Repr, BEq, DecidableEq

def I63 : Nat := 9223372036854775808          -- 2^63
def W64 : Int := 18446744073709551616         -- 2^64
def W32 : Nat := 4294967296

/-- Go `int64` addition of two non-negative `int64` values (wraps to a negative number at 2^63) -/
def add64 (a b : Nat) : Int := if a + b < I63 then ((a + b : Nat) : Int) else ((a + b : Nat) : Int) - W64

/-- Go slice expression `b[lo:hi]` with its run-time bounds check (`lo ≤ len b` is established by the caller) -/
def slice (b : Str) (lo : Nat) (hi : Int) : Out :=
  if hi < (lo : Int) ∨ hi > (b.length : Int) then .panic else .ok ((b.take hi.toNat).drop lo)

/-- "Extract partial if any", after the repair: an overflowing end saturates at len(b) -/
def applyPartial (b : Str) (off sz : Nat) : Out :=
  let e := add64 off sz
  if off > b.length then .ok []
  else slice b off (if e > (b.length : Int) ∨ e < (off : Int) then (b.length : Int) else e)

/-- as shipped: `end := Offset + Size; if end > len(b) { end = len(b) }; b[Offset:end]` -/
def Legacy.applyPartial (b : Str) (off sz : Nat) : Out :=
  let e := add64 off sz
  if off > b.length then .ok []
  else slice b off (if e > (b.length : Int) then (b.length : Int) else e)

def keepField (s : Section) (kv : Str × Str) : Bool :=
  if s.fields.isEmpty then true
  else if s.fieldsNot then !(s.fields.any fun f => lower f == lower kv.1)
  else s.fields.any fun f => lower f == lower kv.1

/-- the bytes of a section before the partial is applied; `none` = the early `return nil`
    (a part number other than 1 on a single-part message) -/
def sectionBytes (m : Message) (s : Section) : Option Str :=
  if !(s.part.all (· == 1)) then none
  else
    let hdr := (m.hdrs.filter (keepField s)).flatMap hdrLine ++ [13, 10]
    let writeHeader := match s.spec with | .none => s.part.isEmpty | .text => false | _ => true
    let writeBody := match s.spec with | .none | .text => true | _ => false
    some ((if writeHeader then hdr else []) ++ (if writeBody then m.body else []))

def bodySection (cfg : Cfg) (m : Message) (s : Section) : Out :=
  match sectionBytes m s with
  | none => .ok []
  | some b =>
    match s.range with
    | none => .ok b
    | some (off, sz) => if cfg.legacyPartial then Legacy.applyPartial b off sz else applyPartial b off sz

structure FetchOpts where
  flags : Bool := false
  date : Bool := false
  size : Bool := false
  sections : List Section := []
deriving Repr

def isPrefixOf : Str → Str → Bool
  | [], _ => true
  | _ :: _, [] => false
  | p :: ps, x :: xs => p == x && isPrefixOf ps xs

def contentTypeKey : Str := [99, 111, 110, 116, 101, 110, 116, 45, 116, 121, 112, 101]   -- content-type
def multipartPfx : Str := [109, 117, 108, 116, 105, 112, 97, 114, 116, 47]                -- multipart/
def messagePfx : Str := [109, 101, 115, 115, 97, 103, 101, 47]                            -- message/

/-- the message's media type makes part numbers mean something else than "the message itself"
    (multipart/*, message/*): numbered sections of such messages are outside the model -/
def opaqueParts (m : Message) : Bool :=
  m.hdrs.any fun kv => lower kv.1 == contentTypeKey && (isPrefixOf multipartPfx (lower kv.2) || isPrefixOf messagePfx (lower kv.2))

def sectionAtts (cfg : Cfg) (m : Message) : List Section → Option (List Att)
  | [] => some []
  | s :: rest =>
    if opaqueParts m && !s.part.isEmpty then
      (sectionAtts cfg m rest).map fun l => .opaque s (s.range.map fun p => p.1 % W32) :: l
    else
    match bodySection cfg m s, sectionAtts cfg m rest with
    | .ok b, some l => some (.section s (s.range.map fun p => p.1 % W32) b :: l)
    | _, _ => none

/-- message.go fetch; `none` = a section panicked -/
def fetchAtts (cfg : Cfg) (m : Message) (o : FetchOpts) : Option (List Att) :=
  (sectionAtts cfg m o.sections).map fun secs =>
    [.uid m.uid] ++ (if o.flags then [.flags m.flags] else []) ++ (if o.date then [.date m.date m.zone] else [])
      ++ (if o.size then [.size (size m)] else []) ++ secs

/-! ### number sets and addressing (mailbox.go staticNumSet, forEachLocked) -/

/-- mailbox.go staticNumRange -/
def staticRange (max : Nat) (r : NumSet.Range) : NumSet.Range :=
  let dyn := r.start = 0 || r.stop = 0
  let a := if r.start = 0 then max else r.start
  let b := if r.stop = 0 then max else r.stop
  if dyn && a > b then ⟨b, a⟩ else ⟨a, b⟩

/-- mailbox.go staticNumSet, after the repair: the static ranges are inserted into a fresh set -/
def staticSet (max : Nat) (s : NumSet.Set) : NumSet.Set :=
  s.foldl (fun acc r => let r' := staticRange max r; NumSet.addRange acc r'.start r'.stop) []

/-- as shipped: `*` replaced in place, which can leave the ranges unsorted under `Contains`'s binary search -/
def Legacy.staticSet (max : Nat) (s : NumSet.Set) : NumSet.Set := s.map (staticRange max)

def encodeSeq (c : Conn) (o : Mbox) (s : Nat) : Nat := Tracker.encode (c.queue.map Upd.toT) o.msgs.length s

def zipSeq (l : List Message) : List (Nat × Message) := (l.zipIdx).map fun (m, i) => (i + 1, m)

/-- the messages `forEachLocked` calls `f` on: (server sequence number, message) -/
def addressed (c : Conn) (o : Mbox) (uid : Bool) (set : NumSet.Set) : List (Nat × Message) :=
  if uid then
    let s := staticSet (o.uidNext - 1) set
    (zipSeq o.msgs).filter fun (_, m) => NumSet.contains s m.uid
  else
    let s := staticSet o.msgs.length set
    (zipSeq o.msgs).filter fun (i, _) => let e := encodeSeq c o i; e != 0 && NumSet.contains s e

/-! ### polling (tracker.go Poll) -/

def pollSplit (q : List Upd) (allow : Bool) : List Upd × List Upd :=
  if allow then (q, [])
  else
    let pre := q.takeWhile fun u => match u with | .expunge _ => false | _ => true
    (pre, q.drop pre.length)

def updItem : Upd → Item
  | .expunge k => .expunge k
  | .exists_ _ n => .exists_ n
  | .fetch k uid fl => .fetch k [.uid uid, .flags fl]

/-- conn.go poll + UserSession.Poll: nothing when no mailbox is selected -/
def poll (st : St) (cid : Nat) (allow : Bool) : St × List Item :=
  match st.getConn cid with
  | none => (st, [])
  | some c =>
    if c.sel.isNone then (st, [])
    else
      let (out, rest) := pollSplit c.queue allow
      (st.setConn cid fun c => { c with queue := rest }, out.map updItem)

/-- a successful command: `c.poll(name)` then the tagged OK -/
def finish (st : St) (cid : Nat) (allow : Bool) (items : List Item) (code : Code := .none) : St × Resp :=
  let (st', pi) := poll st cid allow
  (st', ok (items ++ pi) code)

/-! ### mailbox mutations -/

/-- the mailbox part of appendBytes: `msg.uid = mbox.uidNext; mbox.uidNext++; mbox.l = append(mbox.l, msg)` -/
def pushMsg (m : Message) (o : Mbox) : Mbox :=
  { o with msgs := o.msgs ++ [{ m with uid := o.uidNext }], uidNext := o.uidNext + 1 }

/-- mailbox.go appendBytes: returns the new UID -/
def appendMsg (st : St) (oid : Nat) (m : Message) : St × Nat :=
  match st.getObj oid with
  | none => (st, 0)
  | some o =>
    ((st.setObj oid (pushMsg m)).dispatch oid (.exists_ o.msgs.length (o.msgs.length + 1)) none, o.uidNext)

/-- mailbox.go copyMsg for a list of messages: returns the destination UIDs in order -/
def copyMsgs (st : St) (dest : Nat) : List Message → St × List Nat
  | [] => (st, [])
  | m :: rest =>
    let (st1, u) := appendMsg st dest m
    let (st2, us) := copyMsgs st1 dest rest
    (st2, u :: us)

/-- `mbox.l = filtered`: the messages at the given positions are gone -/
def dropSeqs (seqs : List Nat) (o : Mbox) : Mbox :=
  { o with msgs := ((zipSeq o.msgs).filter fun p => !seqs.contains p.1).map (·.2) }

/-- mailbox.go expungeLocked: queue EXPUNGE for the positions (descending), drop the messages -/
def expungeSeqs (st : St) (oid : Nat) (seqs : List Nat) : St :=
  let desc := seqs.reverse
  let st1 := st.dispatchAll oid (desc.map Upd.expunge) none
  st1.setObj oid (dropSeqs seqs)

/-- mailbox.go Expunge: which messages go (server sequence numbers, ascending) -/
def expungeEligible (o : Mbox) (uids : Option NumSet.Set) : List Nat :=
  ((zipSeq o.msgs).filter fun (_, m) =>
    (match uids with | none => true | some s => NumSet.contains (staticSet (o.uidNext - 1) s) m.uid) && m.flags.contains deletedFlag).map (·.1)

def unionFlags (msgs : List Message) : List Str := msgs.foldl (fun acc m => addFlags acc m.flags) []

/-! ### commands -/

structure StatusItems where
  keys : List StatusKey         -- as requested (duplicates allowed); written in writeStatus's fixed order
deriving Repr

def statusOrder : List StatusKey :=
  [.messages, .uidnext, .uidvalidity, .unseen, .deleted, .size, .appendlimit, .deletedStorage, .recent]

def countFlag (o : Mbox) (f : Str) : Nat := (o.msgs.filter fun m => m.flags.contains f).length

/-- mailbox.go statusDataLocked + status.go writeStatus; `none` = nil dereference (legacy) -/
def statusItem (cfg : Cfg) (o : Mbox) (it : StatusItems) : Option Item :=
  if cfg.legacyStatusNil && it.keys.contains .deletedStorage then none else
  let kv := statusOrder.filterMap fun k =>
    if !it.keys.contains k then none else
    match k with
    | .messages => some (k, some o.msgs.length)
    | .uidnext => some (k, some o.uidNext)
    | .uidvalidity => some (k, some o.uidValidity)
    | .unseen => some (k, some (o.msgs.length - countFlag o seenFlag))
    | .deleted => some (k, some (countFlag o deletedFlag))
    | .size => some (k, some ((o.msgs.map size).foldl (· + ·) 0))
    | .appendlimit => some (k, none)
    | .deletedStorage => none            -- not supplied by the backend: omitted (after the repair)
    | .recent => some (k, some 0)
  some (.status o.name kv)

structure RetOpts where
  min : Bool := false
  max : Bool := false
  all : Bool := false
  count : Bool := false
deriving Repr

inductive Cmd where
  | create (name : Str)
  | delete (name : Str)
  | rename (old new : Str)
  | subscribe (name : Str)
  | unsubscribe (name : Str)
  | list (selSub : Bool) (ref : Str) (paren : Bool) (pats : List Str) (status : Option StatusItems)
  | status (name : Str) (items : StatusItems)
  | append (name : Str) (flags : List Str) (date : Option (Int × Int)) (hdrs : List (Str × Str)) (body : Str)
      (sentDay : Int) (sentErr : Bool)
  | select (name : Str) (readOnly : Bool)
  | close
  | unselect
  | noop
  | store (uid : Bool) (set : NumSet.Set) (op : StoreOp) (silent : Bool) (flags : List Str)
  | copy (uid : Bool) (set : NumSet.Set) (dest : Str)
  | move (uid : Bool) (set : NumSet.Set) (dest : Str)
  | expunge
  | uidExpunge (set : NumSet.Set)
  | search (uid : Bool) (ret : Option RetOpts) (keys : Search.KeyList)
  | fetch (uid : Bool) (set : NumSet.Set) (opts : FetchOpts)

/-- user.go Create -/
def doCreate (st : St) (name : Str) : St × Resp :=
  let name := dropTrailingSlash name
  match st.lookup name with
  | some _ => (st, no "ALREADYEXISTS")
  | none =>
    let v := st.prevUidValidity + 1
    ({ st with objs := st.objs ++ [⟨st.nextId, name, v, 1, false, []⟩], names := st.names ++ [(name, st.nextId)],
               prevUidValidity := v, nextId := st.nextId + 1 }, ok)

/-- user.go Delete -/
def doDelete (st : St) (name : Str) : St × Resp :=
  match st.lookup name with
  | none => (st, no "NONEXISTENT")
  | some _ => ({ st with names := st.names.filter fun p => p.1 != name }, ok)

/-- user.go Rename -/
def doRename (st : St) (old new : Str) : St × Resp :=
  let new := dropTrailingSlash new
  match st.lookup old with
  | none => (st, no "NONEXISTENT")
  | some id =>
    match st.lookup new with
    | some _ => (st, no "ALREADYEXISTS")
    | none =>
      let st1 := st.setObj id fun o => { o with name := new }
      ({ st1 with names := (st1.names.filter fun p => p.1 != old) ++ [(new, id)] }, ok)

def doSubscribe (st : St) (name : Str) (v : Bool) : St × Resp :=
  match st.lookup name with
  | none => (st, no "NONEXISTENT")
  | some id => (st.setObj id fun o => { o with subscribed := v }, ok)

def slash : Nat := 47
def subscribedAttr : Str := [92, 83, 117, 98, 115, 99, 114, 105, 98, 101, 100]   -- \Subscribed
def noselectAttr : Str := [92, 78, 111, 115, 101, 108, 101, 99, 116]             -- \Noselect

/-- which mailbox names LIST reports (user.go List: any pattern matches) -/
def listMatches (st : St) (ref : Str) (pats : List Str) : List (Str × Nat) :=
  st.names.filter fun p => pats.any fun pat => ListMatch.matchListTop p.1 [slash] (some slash) ref pat

/-- list.go readListCmd tail + user.go List + mailbox.go list; the code sorts the lines by name, the
    model leaves them in map order (the comparison sorts both sides) -/
def doList (cfg : Cfg) (st : St) (selSub : Bool) (ref : Str) (paren : Bool) (pats : List Str)
    (status : Option StatusItems) : Resp :=
  let pats := pats.filter (!·.isEmpty)
  if paren && pats.isEmpty then badClient
  else if pats.isEmpty then ok [.list [noselectAttr] []]
  else
    let rows := (listMatches st ref pats).filterMap fun p =>
      match st.getObj p.2 with
      | none => none
      | some o =>
        if selSub && !o.subscribed then none
        else some (o, Item.list (if o.subscribed then [subscribedAttr] else []) o.name)
    let items := rows.mapM fun (o, li) =>
      match status with
      | none => some [li]
      | some it => (statusItem cfg o it).map fun si => [li, si]
    match items with
    | none => panicResp
    | some ls => ok ls.flatten

def doStatus (cfg : Cfg) (st : St) (name : Str) (it : StatusItems) : Resp :=
  match st.lookup name with
  | none => no "NONEXISTENT"
  | some id =>
    match st.getObj id with
    | none => no "NONEXISTENT"
    | some o =>
      match statusItem cfg o it with
      | none => panicResp
      | some i => ok [i]

/-- append.go handleAppend + user.go Append -/
def doAppend (st : St) (cid : Nat) (name : Str) (m : Message) : St × Resp :=
  match st.lookup name with
  | none => (st, no "TRYCREATE")
  | some id =>
    match st.getObj id with
    | none => (st, no "TRYCREATE")
    | some o =>
      let (st1, uid) := appendMsg st id m
      finish st1 cid true [] (.appenduid o.uidValidity uid)

/-- select.go handleSelect + session.go Select/Unselect -/
def doSelect (st : St) (cid : Nat) (name : Str) (ro : Bool) : St × Resp :=
  match st.getConn cid with
  | none => (st, badClient)
  | some c =>
    let pre : List Item := if c.sel.isSome then [.closed] else []
    let st0 := st.setConn cid fun c => { c with sel := none, queue := [] }
    match (st0.lookup name).bind st0.getObj with
    | none => (st0, no "NONEXISTENT" pre)
    | some o =>
      let fl := unionFlags o.msgs
      (st0.setConn cid fun c => { c with sel := some o.id, queue := [] },
       ok (pre ++ [.exists_ o.msgs.length, .recent 0, .uidvalidity o.uidValidity, .uidnext o.uidNext, .flags fl,
                   .permflags (fl ++ [wildcardFlag])]) (.named (if ro then "READ-ONLY" else "READ-WRITE")))

/-- the selected mailbox of a connection; `none` = checkState(selected) fails -/
def selected (st : St) (cid : Nat) : Option (Conn × Mbox) :=
  match st.getConn cid with
  | none => none
  | some c => match c.sel.bind st.getObj with
    | none => none
    | some o => some (c, o)

/-- select.go handleUnselect -/
def doUnselect (st : St) (cid : Nat) (expunge : Bool) : St × Resp :=
  match selected st cid with
  | none => (st, badClient)
  | some (_, o) =>
    let st1 := if expunge then expungeSeqs st o.id (expungeEligible o none) else st
    (st1.setConn cid fun c => { c with sel := none, queue := [] }, ok)

/-- change the flags of the messages with the given UIDs -/
def mapAddressed (uids : List Nat) (f : List Str → List Str) (o : Mbox) : Mbox :=
  { o with msgs := o.msgs.map fun m => if uids.contains m.uid then { m with flags := f m.flags } else m }

/-- mailbox.go Fetch (the part after number-set resolution), shared with Store -/
def fetchTargets (cfg : Cfg) (st : St) (c : Conn) (o : Mbox) (targets : List (Nat × Message)) (opts : FetchOpts) :
    St × Option (List Item) :=
  let markSeen := opts.sections.any (!·.peek)
  let vis := targets.filter fun (i, _) => cfg.legacyFetchZero || encodeSeq c o i != 0
  let vis' := vis.map fun (i, m) => (i, if markSeen then { m with flags := addFlag m.flags seenFlag } else m)
  let st1 := if markSeen then
      let st' := st.setObj o.id (mapAddressed (vis.map (·.2.uid)) fun fl => addFlag fl seenFlag)
      st'.dispatchAll o.id (vis'.map fun (i, m) => Upd.fetch i m.uid m.flags) none
    else st
  let items := vis'.mapM fun (i, m) => (fetchAtts cfg m opts).map fun a => Item.fetch (encodeSeq c o i) a
  (st1, items)

def doFetch (cfg : Cfg) (st : St) (cid : Nat) (uid : Bool) (set : NumSet.Set) (opts : FetchOpts) : St × Resp :=
  match selected st cid with
  | none => (st, badClient)
  | some (c, o) =>
    match fetchTargets cfg st c o (addressed c o uid set) opts with
    | (st1, none) => (st1, panicResp)
    | (st1, some items) => finish st1 cid uid items

def storeTargets (tg : List (Nat × Message)) (op : StoreOp) (flags : List Str) : List (Nat × Message) :=
  tg.map fun (i, m) => (i, { m with flags := storeFlags op m.flags flags })

/-- the first loop of Store: `msg.store(flags)` on every addressed message, the FETCH update queued for the
    other sessions of the mailbox -/
def storeApply (st : St) (cid : Nat) (o : Mbox) (tg : List (Nat × Message)) (op : StoreOp) (flags : List Str) : St :=
  let st1 := st.setObj o.id (mapAddressed (tg.map (·.2.uid)) fun fl => storeFlags op fl flags)
  st1.dispatchAll o.id ((storeTargets tg op flags).map fun (i, m) => Upd.fetch i m.uid m.flags) (some cid)

/-- mailbox.go Store -/
def doStore (cfg : Cfg) (st : St) (cid : Nat) (uid : Bool) (set : NumSet.Set) (op : StoreOp) (silent : Bool)
    (flags : List Str) : St × Resp :=
  match selected st cid with
  | none => (st, badClient)
  | some (c, o) =>
    let tg := addressed c o uid set
    let tg' := storeTargets tg op flags
    let st2 := storeApply st cid o tg op flags
    if silent then finish st2 cid uid []
    else
      match fetchTargets cfg st2 c o tg' { flags := true } with
      | (st3, none) => (st3, panicResp)
      | (st3, some items) => finish st3 cid uid items

def copyCode (cfg : Cfg) (v : Nat) (src dst : List Nat) : Code :=
  if src.isEmpty then (if cfg.legacyCopyEmpty then .garbled else .none) else .copyuid v src dst

/-- copy.go handleCopy + session.go Copy -/
def doCopy (cfg : Cfg) (st : St) (cid : Nat) (uid : Bool) (set : NumSet.Set) (dest : Str) : St × Resp :=
  match selected st cid with
  | none => (st, badClient)
  | some (c, o) =>
    match (st.lookup dest).bind st.getObj with
    | none => (st, no "TRYCREATE")
    | some d =>
      if d.id == o.id then (st, no "")
      else
        let tg := addressed c o uid set
        let (st1, dst) := copyMsgs st d.id (tg.map (·.2))
        let code := copyCode cfg d.uidValidity (tg.map (·.2.uid)) dst
        if code == .garbled then (st1, ⟨.ok, .garbled, []⟩)
        else finish st1 cid true [] code

/-- the explicit EXPUNGE loop of the shipped Move: numbers re-encoded after the removal -/
def Legacy.moveExpunges (oAfter : Mbox) (queueAfter : List Upd) (seqsDesc : List Nat) : List Item :=
  seqsDesc.map fun s => .expunge (Tracker.encode (queueAfter.map Upd.toT) oAfter.msgs.length s)

/-- move.go handleMove + session.go Move -/
def doMove (cfg : Cfg) (st : St) (cid : Nat) (uid : Bool) (set : NumSet.Set) (dest : Str) : St × Resp :=
  match selected st cid with
  | none => (st, badClient)
  | some (c, o) =>
    match (st.lookup dest).bind st.getObj with
    | none => (st, no "TRYCREATE")
    | some d =>
      if d.id == o.id then (st, no "")
      else
        let tg := addressed c o uid set
        let (st1, dst) := copyMsgs st d.id (tg.map (·.2))
        let st2 := expungeSeqs st1 o.id (tg.map (·.1))
        let code := copyCode cfg d.uidValidity (tg.map (·.2.uid)) dst
        let cu : List Item := match code with
          | .copyuid v s t => [.copyuid v s t]
          | _ => []
        if code == .garbled then (st2, ⟨.no, .named "SERVERBUG", [.unknown "garbled"]⟩)
        else
          let extra : List Item :=
            if cfg.legacyMove then
              match selected st2 cid with
              | some (c2, o2) => Legacy.moveExpunges o2 c2.queue (tg.map (·.1)).reverse
              | none => []
            else []
          finish st2 cid true (cu ++ extra)

/-- expunge.go + mailbox.go Expunge -/
def doExpunge (st : St) (cid : Nat) (uids : Option NumSet.Set) : St × Resp :=
  match selected st cid with
  | none => (st, badClient)
  | some (_, o) => finish (expungeSeqs st o.id (expungeEligible o uids)) cid true []

/-! ### SEARCH -/

def day : Int := 86400

/-- matchDate's truncation: the calendar day of `t` in its own zone, as UTC midnight -/
def dayOf (t : Int) : Int := t - t % day

def toSearchMsg (m : Message) (seq : Nat) : Search.Msg :=
  { seq := seq, uid := m.uid, day := dayOf m.date, sentDay := m.sentDay, sentErr := m.sentErr, flags := m.flags,
    size := size m, buf := lower (raw m), body := lower m.body,
    hdrs := m.hdrs.map fun kv => (lower kv.1, lower kv.2) }

mutual
  /-- mailbox.go staticSearchCriteria -/
  def staticCrit (nSeq nUid : Nat) : Search.Crit → Search.Crit
    | .mk f nots ors =>
      .mk { f with seqSets := f.seqSets.map (staticSet nSeq), uidSets := f.uidSets.map (staticSet nUid) }
        (staticCritList nSeq nUid nots) (staticOrList nSeq nUid ors)
  def staticCritList (nSeq nUid : Nat) : Search.CritList → Search.CritList
    | .nil => .nil
    | .cons c t => .cons (staticCrit nSeq nUid c) (staticCritList nSeq nUid t)
  def staticOrList (nSeq nUid : Nat) : Search.OrList → Search.OrList
    | .nil => .nil
    | .cons a b t => .cons (staticCrit nSeq nUid a) (staticCrit nSeq nUid b) (staticOrList nSeq nUid t)
end

/-- the messages a SEARCH selects: (client sequence number, message) in mailbox order -/
def searchHits (c : Conn) (o : Mbox) (crit : Search.Crit) : List (Nat × Message) :=
  let cr := staticCrit o.msgs.length (o.uidNext - 1) crit
  ((zipSeq o.msgs).map fun (i, m) => (encodeSeq c o i, m)).filter fun (e, m) => Search.matchesC (toSearchMsg m e) cr

def listMin : List Nat → Option Nat
  | [] => none
  | x :: r => some (r.foldl Nat.min x)
def listMax : List Nat → Option Nat
  | [] => none
  | x :: r => some (r.foldl Nat.max x)

/-- search.go handleSearch + mailbox.go Search -/
def doSearch (st : St) (cid : Nat) (uid : Bool) (ret : Option RetOpts) (keys : Search.KeyList) : St × Resp :=
  match selected st cid with
  | none => (st, badClient)
  | some (c, o) =>
    let hits := searchHits c o (Search.foldKeys keys)
    let nums := if uid then hits.map (·.2.uid) else (hits.map (·.1)).filter (· != 0)
    match ret with
    | none => finish st cid uid [.search nums]
    | some r =>
      let all := r.all || !(r.min || r.max || r.count)
      finish st cid uid [.esearch uid (if all then nums else []) (if r.min then listMin nums else none)
        (if r.max then listMax nums else none) (if r.count then some nums.length else none)]

/-- readCommand's tail for the commands that leave the tagged OK to it: poll, then OK -/
def withPoll (cid : Nat) (x : St × Resp) : St × Resp :=
  if x.2.status == .ok then
    let (st', pi) := poll x.1 cid true
    (st', { x.2 with items := x.2.items ++ pi })
  else x

/-- one command on connection `cid` (conn.go readCommand) -/
def step (cfg : Cfg) (st : St) (cid : Nat) : Cmd → St × Resp
  | .create n => withPoll cid (doCreate st (canonName n))
  | .delete n => withPoll cid (doDelete st (canonName n))
  | .rename a b => withPoll cid (doRename st (canonName a) (canonName b))
  | .subscribe n => withPoll cid (doSubscribe st (canonName n) true)
  | .unsubscribe n => withPoll cid (doSubscribe st (canonName n) false)
  | .list ss ref paren pats s =>
    let r := doList cfg st ss (canonName ref) paren pats s
    if r.status == .ok then finish st cid true r.items else (st, r)
  | .status n it =>
    let r := doStatus cfg st (canonName n) it
    if r.status == .ok then finish st cid true r.items else (st, r)
  | .append n fl d hdrs body sd se =>
    doAppend st cid (canonName n)
      { uid := 0, flags := addFlags [] (fl.map lower), date := (d.getD (nowDate, 0)).1, zone := (d.getD (nowDate, 0)).2,
        hdrs := hdrs, body := body, sentDay := sd, sentErr := se }
  | .select n ro => doSelect st cid (canonName n) ro
  | .close =>
    let (st1, r) := doUnselect st cid true
    (st1, r)
  | .unselect => doUnselect st cid false
  | .noop => finish st cid true []
  | .store u s op sil fl => doStore cfg st cid u s op sil fl
  | .copy u s d => doCopy cfg st cid u s (canonName d)
  | .move u s d => doMove cfg st cid u s (canonName d)
  | .expunge => doExpunge st cid none
  | .uidExpunge s => doExpunge st cid (some s)
  | .search u r k => doSearch st cid u r k
  | .fetch u s o => doFetch cfg st cid u s o

def Legacy.cfg : Cfg :=
  { legacyPartial := true, legacyMove := true, legacyFetchZero := true, legacyCopyEmpty := true, legacyStatusNil := true }

/-- a whole history; stops at the first crashed connection -/
def run (cfg : Cfg) (st : St) : List (Nat × Cmd) → St × List Resp
  | [] => (st, [])
  | (cid, cmd) :: rest =>
    let (st1, r) := step cfg st cid cmd
    if r.status == .panic then (st1, [r])
    else
      let (st2, rs) := run cfg st1 rest
      (st2, r :: rs)

end GoImap.Mailbox
