/-
  C10 — the blocking structure of imapclient.Client as a small transition system.

  Threads: the reader goroutine (`Client.read`), one caller running a straight-line program of
  blocking API calls ("phases"), the goroutine that calls `Client.Close`, and (write-error fault)
  a goroutine whose next command write fails. Shared state: the bytes delivered by the server
  (already cut into the tokens the decoder reacts to), what the connection yields once they are
  consumed (`Tail`), the pending commands with their completion / stream / continuation channels,
  the in-flight FETCH message and its open literal, the encoder mutex.

  Every rule is a partial function `St → Option St` (none = not enabled); `rules` lists them,
  `Step` is "some rule applies", `next` picks the first enabled rule: the caller's rules come
  first, so the reader reacts to a response only once the caller cannot move, which is how the
  scripted peer behaves (it answers a command after having received it). `Step` itself also allows
  the reader to run ahead (a server answering before it was asked); the client then fails with a
  protocol error, as the real one does. Core Lean only.

  Mirrors (after the repairs 88d951c, 8bcb980 of the go-imap tree): imapclient/client.go `read`,
  `readResponse`, `readResponseTagged`, `readContinueReq`, `completeCommand`, `closeWithError`,
  `Close`, `beginCommand`/`commandEncoder.flush`, `Command.Wait`; fetch.go `handleFetch`,
  `FetchCommand.Next/Close/Collect`, `fetchLiteralReader.Read`; list.go/expunge.go `Next/Close/
  Collect`; idle.go, append.go, authenticate.go, starttls.go. The unrepaired behaviour is kept
  under `Legacy` (a flag of the state: `legacyLit`, and the tokenizer's `legacyTag`).
-/
namespace GoImap.ClientFault

/-- kinds of commands (only what matters for blocking) -/
inductive Kind | simple | list | fetch | expunge | login | append | idle | auth | starttls
  deriving DecidableEq, Repr, Inhabited

/-- continuation request registered by a command (`Client.contReqs`) -/
inductive Cont | none | waiting | granted | cancelled
  deriving DecidableEq, Repr, Inhabited

structure Cmd where
  kind : Kind
  issued : Bool := false
  /-- what `completeCommand` put on the `done` channel: `some true` = nil error -/
  result : Option Bool := none
  /-- the stream channel (`mailboxes`/`msgs`/`seqNums`) was closed by `completeCommand` -/
  closed : Bool := false
  cont : Cont := .none
  deriving DecidableEq, Repr, Inhabited

/-- what the decoder reacts to in the delivered bytes -/
inductive Tok
  | greet                          -- the complete greeting line
  | line                           -- a complete untagged line without blocking effect
  | cont (c : Nat)                 -- a complete continuation request (for command c)
  | tagged (c : Nat) (ok : Bool)   -- a complete tagged response
  | lit (c : Nat) (n got : Nat)    -- a literal header inside a FETCH response (message handed to c)
                                   -- followed by got ≤ n delivered bytes of its body
  | fend                           -- the rest of a FETCH response: the message's items are closed
  | cutoff                         -- an incomplete response: the reader blocks inside it
  | early (c : Nat) (ok : Bool)    -- Legacy: a tagged response taken for complete before its CRLF
  deriving DecidableEq, Repr, Inhabited

/-- what the connection yields once the delivered bytes are consumed -/
inductive Tail | stall | eof | err
  deriving DecidableEq, Repr, Inhabited

inductive Reader | reading | litWait | exited
  deriving DecidableEq, Repr, Inhabited

/-- phases of the caller's program -/
inductive Phase
  | greetWait                -- G: WaitGreeting
  | issue (c : Nat)          -- i: a command method that does not block (Noop, Fetch, List, ...)
  | wait (c : Nat)           -- W: Command.Wait
  | collect (c : Nat)        -- C: Collect
  | loop (c : Nat)           -- N: Next until nil (literals read to the end)
  | close (c : Nat)          -- X: Close
  | issueCont (c : Nat)      -- J: Login with a literal / Append: returns after the continuation request
  | idle (c : Nat)           -- I: Idle(): returns after the continuation request, with an error
  | appendWrite (c : Nat)    -- w: AppendCommand.Write + Close
  | idleDone (c : Nat)       -- D: IdleCommand.Close
  | auth (c : Nat)           -- U: Authenticate
  | starttls (c : Nat)       -- S: NewStartTLS
  deriving DecidableEq, Repr, Inhabited

/-- class of a finished phase -/
inductive Cls | ok | err | ret | skipped
  deriving DecidableEq, Repr, Inhabited

/-- where the caller is blocked -/
inductive Pos
  | ready
  | greet
  | res (c : Nat)                      -- on the command's `done` channel
  | msgs (c : Nat) (thenWait : Bool)   -- on the command's stream channel
  | items (c : Nat) (thenWait : Bool)  -- on the in-flight message's `items` channel
  | lit (c : Nat) (thenWait : Bool)    -- in the literal's Read (on the connection)
  | cont (c : Nat)                     -- on a continuation request
  | tls (c : Nat)                      -- on `upgradeDone`
  deriving DecidableEq, Repr, Inhabited

inductive Closer | none | wanted | waiting | returned
  deriving DecidableEq, Repr, Inhabited

inductive Prober | none | wanting | done
  deriving DecidableEq, Repr, Inhabited

structure St where
  cmds : List Cmd
  inbox : List Tok
  tail : Tail := .stall
  reader : Reader := .reading
  greeted : Bool := false
  /-- in-flight FETCH message handed to its command: `some q`, q = a literal item is queued -/
  flight : Option Bool := none
  /-- bytes of the open literal that were not delivered (0: the consumer can read it to its end) -/
  need : Nat := 0
  /-- the literal's `done` channel was closed -/
  litDone : Bool := false
  /-- `encMutex` is held by the caller -/
  mutex : Bool := false
  /-- an Idle() call failed: the IdleCommand does not exist -/
  idleFailed : Bool := false
  /-- the STARTTLS upgrade was performed (`upgradeDone` closed) -/
  upgraded : Bool := false
  /-- the connection was closed on the client's side (`conn.Close()`): writes fail from now on -/
  closedLocal : Bool := false
  /-- `closeWithError` has run -/
  failed : Bool := false
  pos : Pos := .ready
  prog : List Phase
  out : List Cls := []
  closer : Closer := .none
  prober : Prober := .none
  /-- Legacy: `fetchLiteralReader.Read` signals the reader only on io.EOF -/
  legacyLit : Bool := false
  deriving DecidableEq, Repr, Inhabited

/-! ## command table -/

/-- commands are numbered from 0 in the model (tag T(c+1) on the wire) -/
def cmdAt? (s : St) (c : Nat) : Option Cmd := s.cmds[c]?

def setCmd (s : St) (c : Nat) (x : Cmd) : St :=
  { s with cmds := s.cmds.set c x }

/-- `completeCommand(cmd, err)`: deliver the result, cancel its continuation request, close its stream -/
def completeOne (x : Cmd) (ok : Bool) : Cmd :=
  { x with result := some ok, closed := true,
           cont := if x.cont = .waiting then .cancelled else x.cont }

def pendingCmd (x : Cmd) : Bool := x.issued && x.result.isNone

/-- a continuation request still queued is cancelled -/
def cancelCont (x : Cmd) : Cmd := { x with cont := if x.cont = .waiting then .cancelled else x.cont }

/-- `closeWithError`: every pending command completes with the error, and every continuation
    request still queued is cancelled (also one registered after its command was completed) -/
def failAll (l : List Cmd) : List Cmd :=
  l.map fun x => cancelCont (if pendingCmd x then completeOne x false else x)

/-- the connection is closed locally: nothing more can be read, reads fail -/
def closeConn (s : St) : St := { s with inbox := [], tail := .err, closedLocal := true }

/-! ## the rules -/

/-- the reader consumes one token -/
def rTok (s : St) : Option St :=
  if s.reader ≠ .reading then none else
  match s.inbox with
  | .greet :: r => some { s with inbox := r, greeted := true }
  | .line :: r => some { s with inbox := r }
  | .cont c :: r =>
    match cmdAt? s c with
    | some x => if x.cont = .waiting then some (setCmd { s with inbox := r } c { x with cont := .granted }) else none
    | none => none
  | .tagged c ok :: r =>
    match cmdAt? s c with
    | some x =>
      if pendingCmd x then
        let s' := setCmd { s with inbox := r } c (completeOne x ok)
        some { s' with upgraded := s.upgraded || (x.kind = .starttls && ok) }
      else none
    | none => none
  | .early c ok :: r =>
    match cmdAt? s c with
    | some x => if pendingCmd x then some (setCmd { s with inbox := r } c (completeOne x ok)) else none
    | none => none
  | .lit c n got :: r =>
    match cmdAt? s c with
    | some x => if pendingCmd x then some { s with inbox := r, flight := some true, need := n - got, reader := .litWait, litDone := false } else none
    | none => none
  | .fend :: r => some { s with inbox := r, flight := none }
  | .cutoff :: _ => none
  | [] => none

/-- the reader's read fails (EOF, error, deadline, closed): `read` returns, `closeWithError` -/
def rFail (s : St) : Option St :=
  -- no token can be processed: the input is exhausted or cut (then the read fails once the
  -- connection does), or the next token is a protocol error for the client (unknown tag, unmatched
  -- continuation request, ...: `readResponse` returns an error at once)
  if s.reader = .reading && (rTok s).isNone &&
     (s.tail ≠ .stall || !(s.inbox = [] || s.inbox.head? = some .cutoff)) then
    -- unwinding through handleFetch closes the in-flight message's items channel
    some { closeConn s with reader := .exited, cmds := failAll s.cmds, flight := none, failed := true }
  else none

/-- the consumer finished with the literal: `<-done` returns in handleFetch -/
def rResume (s : St) : Option St :=
  if s.reader = .litWait && s.litDone then some { s with reader := .reading, litDone := false } else none

def record (s : St) (c : Cls) : St :=
  match s.prog with
  | [] => { s with pos := .ready }
  | _ :: r => { s with prog := r, out := s.out ++ [c], pos := .ready }

/-- issue command c (`beginCommand` … `flush`): on a closed connection the write fails and
    `closeWithError` completes everything pending at once -/
def issueCmd (s : St) (c : Nat) (x : Cmd) (withCont : Bool) : St :=
  let x1 : Cmd := { x with issued := true, cont := if withCont then .waiting else x.cont }
  let s1 := setCmd s c x1
  if s.closedLocal then { s1 with cmds := failAll s1.cmds, failed := true } else s1

def clsOf (ok : Bool) : Cls := if ok then .ok else .err

/-- start consuming the stream of an issued command -/
def consume (s : St) (c : Nat) (w : Bool) : St :=
  match cmdAt? s c with
  | some x => if x.issued then { s with pos := .msgs c w } else record s .skipped
  | none => record s .skipped

/-- a command method that blocks on a continuation request while holding the encoder mutex -/
def issueBlocking (s : St) (c : Nat) (kindOk : Kind → Bool) : St :=
  match cmdAt? s c with
  | some x => if kindOk x.kind && !x.issued then { issueCmd s c x true with mutex := true, pos := .cont c } else record s .skipped
  | none => record s .skipped

/-- the caller starts a phase. A call for which there is no command handle (unknown or not yet
    issued command, wrong kind) cannot be made: it is recorded as skipped; so is issuing a command
    number a second time (every command method creates a fresh command). -/
def startPhase (s : St) : Phase → St
  | .greetWait => { s with pos := .greet }
  | .issue c =>
    match cmdAt? s c with
    | some x => if x.issued then record s .skipped else record (issueCmd s c x false) .ret
    | none => record s .skipped
  | .wait c =>
    match cmdAt? s c with
    | some x => if !x.issued || (x.kind = .idle && s.idleFailed) then record s .skipped else { s with pos := .res c }
    | none => record s .skipped
  | .collect c => consume s c true
  | .close c => consume s c true
  | .loop c => consume s c false
  | .issueCont c => issueBlocking s c fun k => k = .login || k = .append
  | .idle c => issueBlocking s c fun k => k = .idle
  | .auth c => issueBlocking s c fun k => k = .auth
  | .appendWrite c =>
    match cmdAt? s c with
    | some x => if x.issued then record { s with mutex := false } (clsOf (x.cont = .granted)) else record s .skipped
    | none => record s .skipped
  | .idleDone _ => record { s with mutex := false } (if s.idleFailed then .skipped else .ret)
  | .starttls c =>
    match cmdAt? s c with
    | some x => if x.kind = .starttls && !x.issued then { issueCmd s c x false with mutex := true, pos := .res c } else record s .skipped
    | none => record s .skipped

def cStart (s : St) : Option St :=
  if s.pos ≠ .ready then none else
  match s.prog with
  | [] => none
  | ph :: _ => some (startPhase s ph)

/-- WaitGreeting returns: greeting received or `decCh` closed -/
def cGreet (s : St) : Option St :=
  if s.pos = .greet && (s.greeted || s.reader = .exited) then some (record s .ret) else none

/-- Wait returns with the command's result -/
def cRes (s : St) : Option St :=
  match s.pos with
  | .res c =>
    match cmdAt? s c with
    | some x =>
      match x.result with
      | some ok =>
        if x.kind = .starttls && ok then some { s with pos := .tls c }
        else if x.kind = .starttls then some (record { closeConn s with mutex := false } .err)  -- NewStartTLS closes the connection
        else some (record { s with mutex := false } (clsOf ok))
      | none => none
    | none => none
  | _ => none

/-- startTLS: `<-upgradeDone` -/
def cTls (s : St) : Option St :=
  match s.pos with
  | .tls _ => if s.upgraded then some (record { s with mutex := false } .ok) else none
  | _ => none

/-- Next on the command's stream: a handed-over FETCH message, or the closed channel -/
def cMsgs (s : St) : Option St :=
  match s.pos with
  | .msgs c w =>
    match cmdAt? s c with
    | some x =>
      if x.kind = .fetch && s.flight.isSome then some { s with pos := .items c w }
      else if x.closed then (if w then some { s with pos := .res c } else some (record s .ret))
      else none
    | none => none
  | _ => none

/-- Next on the message's items: a queued literal item, or the closed channel -/
def cItems (s : St) : Option St :=
  match s.pos with
  | .items c w =>
    match s.flight with
    | some true => some { s with flight := some false, pos := .lit c w }
    | none => some { s with pos := .msgs c w }
    | some false => none
  | _ => none

/-- Read on the literal -/
def cLit (s : St) : Option St :=
  match s.pos with
  | .lit c w =>
    if s.need = 0 then some { s with litDone := true, pos := .items c w }       -- io.EOF of the LimitReader
    else match s.tail with                                                       -- the rest never arrives
      | .stall => none
      | .eof => some { s with litDone := true, pos := .items c w }               -- truncated literal, io.EOF
      | .err => some { s with litDone := !s.legacyLit, pos := .items c w }       -- the repaired Read signals on any error
  | _ => none

/-- a continuation request is answered or cancelled -/
def cCont (s : St) : Option St :=
  match s.pos with
  | .cont c =>
    match cmdAt? s c with
    | some x =>
      match x.kind, x.cont with
      | .login, .granted => some (record { s with mutex := false } .ret)
      | .login, .cancelled => some (record { s with mutex := false } .ret)
      | .append, .granted => some (record s .ret)
      | .append, .cancelled => some (record s .ret)
      | .idle, .granted => some (record s .ok)
      | .idle, .cancelled => some (record { s with mutex := false, idleFailed := true } .err)
      | .auth, .granted =>
        -- Authenticate registers the next continuation request and writes its SASL response;
        -- on a closed connection the write fails and Authenticate returns that error
        if s.closedLocal then some (record { s with mutex := false } .err)
        else some (setCmd s c { x with cont := .waiting })
      | .auth, .cancelled => some { s with pos := .res c }
      | _, _ => none
    | none => none
  | _ => none

/-- Client.Close: close the connection … -/
def kClose (s : St) : Option St :=
  if s.closer = .wanted then some { closeConn s with closer := .waiting } else none

/-- … and wait for `decCh` -/
def kRet (s : St) : Option St :=
  if s.closer = .waiting && s.reader = .exited then some { s with closer := .returned } else none

/-- the caller closes the client once its program is through -/
def kFinal (s : St) : Option St :=
  if s.closer = .none && s.prog = [] && s.pos = .ready then some { s with closer := .wanted } else none

/-- the probing command's write fails: `closeWithError` from the writer's side -/
def pFire (s : St) : Option St :=
  if s.prober = .wanting && !s.mutex then
    some { closeConn s with prober := .done, cmds := failAll s.cmds, failed := true }
  else none

def rules : List (St → Option St) :=
  [cStart, cGreet, cRes, cTls, cMsgs, cItems, cLit, cCont, rTok, rResume, rFail, kClose, kRet, pFire, kFinal]

/-- rules of the system without the final Close of the caller (used while the fault is being set up) -/
def rulesNoFinal : List (St → Option St) :=
  [cStart, cGreet, cRes, cTls, cMsgs, cItems, cLit, cCont, rTok, rResume, rFail, kClose, kRet, pFire]

def Step (s s' : St) : Prop := ∃ r ∈ rules, r s = some s'

def next (rs : List (St → Option St)) (s : St) : Option St := rs.findSome? fun r => r s

/-- run until no rule is enabled (or the fuel is used up) -/
def run (rs : List (St → Option St)) : Nat → St → St
  | 0, s => s
  | f + 1, s => match next rs s with
    | none => s
    | some s' => run rs f s'

/-- everything has returned -/
def terminal (s : St) : Bool :=
  s.prog = [] && s.pos = .ready && s.closer = .returned && s.reader = .exited && s.prober ≠ .wanting

/-! ## from the abstract transcript to tokens -/

inductive Seg | txt (len : Nat) | lit (n : Nat)
  deriving DecidableEq, Repr, Inhabited

inductive Item
  | greet (len : Nat)
  | line (len : Nat)
  | cont (c : Nat) (len : Nat)
  | tagged (c : Nat) (ok : Bool) (len : Nat) (head : Nat)
  | fetch (c : Nat) (segs : List Seg)
  deriving DecidableEq, Repr, Inhabited

def Seg.len : Seg → Nat
  | .txt n => n
  | .lit n => n

def Item.len : Item → Nat
  | .greet n => n
  | .line n => n
  | .cont _ n => n
  | .tagged _ _ n _ => n
  | .fetch _ segs => (segs.map Seg.len).foldl (· + ·) 0

/-- tokens of a FETCH response of which `got` bytes were delivered (got < its length) -/
def fetchToks (c : Nat) : List Seg → Nat → List Tok
  | [], _ => [.cutoff]
  | .txt n :: r, got => if got < n then [.cutoff] else fetchToks c r (got - n)
  | .lit n :: r, got =>
    if got < n then [.lit c n got] else .lit c n n :: fetchToks c r (got - n)

def fetchFull (c : Nat) : List Seg → List Tok
  | [] => [.fend]
  | .txt _ :: r => fetchFull c r
  | .lit n :: r => .lit c n n :: fetchFull c r

/-- tokens of one completely delivered item -/
def fullToks : Item → List Tok
  | .greet _ => [.greet]
  | .line _ => [.line]
  | .cont c _ => [.cont c]
  | .tagged c ok _ _ => [.tagged c ok]
  | .fetch c segs => fetchFull c segs

/-- tokens of an item of which only 0 < got < len bytes were delivered -/
def partToks (legacyTag : Bool) : Item → Nat → List Tok
  | .tagged c ok len head, got =>
    if legacyTag && (got = head || got + 1 ≥ len) then [.early c ok, .cutoff] else [.cutoff]
  | .fetch c segs, got => fetchToks c segs got
  | _, _ => [.cutoff]

/-- the delivered prefix of length k as tokens; the flag says whether the cut falls inside an item -/
def tokenize (legacyTag : Bool) : List Item → Nat → List Tok × Bool
  | [], _ => ([], false)
  | it :: r, k =>
    if k = 0 then ([], false)
    else if it.len ≤ k then
      let (t, a) := tokenize legacyTag r (k - it.len)
      (fullToks it ++ t, a)
    else (partToks legacyTag it k, true)

/-! ## the experiment: play the transcript up to the cut, inject the fault, let the caller close -/

inductive Fault | none | eof | rerr | werr | sclose | stimeout
  deriving DecidableEq, Repr, Inhabited

structure Config where
  kinds : List Kind
  items : List Item
  prog : List Phase
  k : Nat
  fault : Fault
  legacyLit : Bool := false
  legacyTag : Bool := false
  deriving Repr

def totalLen (items : List Item) : Nat := (items.map Item.len).foldl (· + ·) 0

def initial (cfg : Config) : St :=
  { cmds := cfg.kinds.map fun k => { kind := k }
    inbox := (tokenize cfg.legacyTag cfg.items cfg.k).1
    prog := cfg.prog
    legacyLit := cfg.legacyLit }

/-- a read deadline is armed at the cut: the reader (or the literal's consumer) is inside a response -/
def armed (cfg : Config) : Bool := (tokenize cfg.legacyTag cfg.items cfg.k).2

def hasStarttls (cfg : Config) : Bool := cfg.kinds.any (· = .starttls)

/-- the fault as an event on a quiescent state -/
def inject (cfg : Config) (s : St) : St :=
  if cfg.k ≥ totalLen cfg.items || s.closedLocal then s else   -- nothing to inject on a connection already closed
  match cfg.fault with
  | .none => s
  | .eof => { s with tail := .eof }
  | .rerr => { s with tail := .err }
  | .sclose => { s with closer := .wanted }
  | .stimeout => if armed cfg then { s with tail := .err } else { s with closer := .wanted }
  | .werr =>
    if hasStarttls cfg then { s with closer := .wanted }
    else if s.mutex then { s with prober := .wanting, closer := .wanted }
    else { s with prober := .wanting }

def fuelFor (cfg : Config) : Nat := 64 + 8 * (cfg.prog.length + cfg.k + cfg.items.length + cfg.kinds.length)

/-- the terminal state the model predicts -/
def simulate (cfg : Config) : St :=
  let f := fuelFor cfg
  let s1 := run rulesNoFinal f (initial cfg)
  let s2 := run rulesNoFinal f (inject cfg s1)
  let s3 := run rules f s2
  -- the harness calls Close in the end even when the caller's program is stuck
  if s3.closer = .none then run rules f { s3 with closer := .wanted } else s3

end GoImap.ClientFault
