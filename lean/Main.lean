import GoImap.Drive.C15
import GoImap.Drive.C20
import GoImap.Drive.C16
import GoImap.Drive.C19
import GoImap.Drive.C07
import GoImap.Drive.C02
import GoImap.Drive.C09
import GoImap.Drive.C05
import GoImap.Drive.C13
import GoImap.Drive.C01
import GoImap.Drive.C12
import GoImap.Drive.C14
import GoImap.Drive.C17
import GoImap.Drive.C03
import GoImap.Drive.C10
import GoImap.Drive.C04
import GoImap.Drive.C11
import GoImap.Drive.C08
import GoImap.Drive.C06
import GoImap.Drive.C18
open GoImap

/-- one case per input line, tab-separated; the first field names the property -/
def dispatch (line : String) : String :=
  match splitOnChar line '\t' with
  | "C15" :: rest => DriveC15.handle rest
  | "C20" :: rest => DriveC20.handle rest
  | "C16" :: rest => DriveC16.handle rest
  | "C19" :: rest => DriveC19.handle rest
  | "C07" :: rest => DriveC07.handle rest
  | "C02" :: rest => DriveC02.handle rest
  | "C09" :: rest => DriveC09.handle rest
  | "C05" :: rest => DriveC05.handle rest
  | "C13" :: rest => DriveC13.handle rest
  | "C01" :: rest => DriveC01.handle rest
  | "C12" :: rest => DriveC12.handle rest
  | "C14" :: rest => DriveC14.handle rest
  | "C17" :: rest => DriveC17.handle rest
  | "C03" :: rest => DriveC03.handle rest
  | "C10" :: rest => DriveC10.handle rest
  | "C04" :: rest => DriveC04.handle rest
  | "C11" :: rest => DriveC11.handle rest
  | "C08" :: rest => DriveC08.handle rest
  | "C06" :: rest => DriveC06.handle rest
  | "C18" :: rest => DriveC18.handle rest
  | _ => "?\t0\tfail:unknown-property\t-"

partial def loop (hin hout : IO.FS.Stream) : IO Unit := do
  let line ← hin.getLine
  if line.isEmpty then return ()
  let l := (line.dropEndWhile (fun c => c = '\n' || c = '\r')).toString
  hout.putStrLn (dispatch l)
  loop hin hout

def main : IO Unit := do
  let hin ← IO.getStdin
  let hout ← IO.getStdout
  loop hin hout
  hout.flush
