import GoImap.Util
import GoImap.Model.NumSet
import GoImap.Spec.NumSet
import GoImap.Drive.C15
import GoImap.Props.C15
import GoImap.Audit.C15
