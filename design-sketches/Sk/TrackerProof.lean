import Sk.Tracker
namespace Tracker

def appended : List Upd → List Nat
  | [] => []
  | .exists_ _ _ ids :: q => ids ++ appended q
  | _ :: q => appended q

theorem applyAll_cons (u : Upd) (q : List Upd) (v : View) :
    applyAll (u :: q) v = applyAll q (applyU v u) := rfl

theorem mem_applyAll (q : List Upd) : ∀ (v : View) (x : Nat), x ∈ applyAll q v → x ∈ v ∨ x ∈ appended q := by
  induction q with
  | nil => intro v x h; exact Or.inl h
  | cons u q ih =>
    intro v x h
    rw [applyAll_cons] at h
    rcases ih _ _ h with h | h
    · cases u with
      | expunge k => exact Or.inl (List.mem_of_mem_eraseIdx h)
      | exists_ p n ids =>
        simp only [applyU, List.mem_append] at h
        rcases h with h | h
        · exact Or.inl h
        · exact Or.inr (by simp [appended, h])
      | other => exact Or.inl h
    · cases u <;> simp_all [appended]

/-- main lemma for decode: tracks the element at 1-based position c -/
theorem decLoop_spec (q : List Upd) : ∀ (v : View) (c : Nat),
    ValidAll q v → 1 ≤ c → c ≤ v.length → (v ++ appended q).Nodup →
    match decLoop q c with
    | none => ∀ x, v[c-1]? = some x → x ∉ applyAll q v
    | some r => 1 ≤ r ∧ r ≤ (applyAll q v).length ∧ (applyAll q v)[r-1]? = v[c-1]? := by
  induction q with
  | nil =>
    intro v c _ h1 h2 _
    simp [decLoop, applyAll, h1, h2]
  | cons u q ih =>
    intro v c hv h1 h2 hnd
    obtain ⟨hu, hq⟩ := hv
    rw [applyAll_cons]
    cases u with
    | other =>
      simp only [decLoop]
      exact ih v c hq h1 h2 (by simpa [appended] using hnd)
    | exists_ p n ids =>
      simp only [decLoop]
      have hnd' : ((v ++ ids) ++ appended q).Nodup := by simpa [appended, List.append_assoc] using hnd
      have := ih (v ++ ids) c hq h1 (by simp; omega) hnd'
      have hget : (v ++ ids)[c-1]? = v[c-1]? := by
        rw [List.getElem?_append_left (by omega)]
      simp only [applyU]
      rw [hget] at this
      exact this
    | expunge e =>
      simp only [ValidU] at hu
      simp only [decLoop, applyU]
      have hnd' : (v.eraseIdx (e-1) ++ appended q).Nodup := by
        have : (v ++ appended q).Nodup := by simpa [appended] using hnd
        exact List.Nodup.sublist (List.Sublist.append (List.eraseIdx_sublist _ _) (List.Sublist.refl _)) this
      have hlen : (v.eraseIdx (e-1)).length = v.length - 1 := by
        rw [List.length_eraseIdx]; simp; omega
      by_cases hce : c = e
      · subst hce
        simp only [if_pos rfl]
        intro x hx hmem
        rcases mem_applyAll q _ _ hmem with h | h
        · -- x in erased list contradicts nodup of v
          have hvnd : v.Nodup := (List.nodup_append.mp (by simpa [appended] using hnd)).1
          have hlt : c - 1 < v.length := by omega
          have hx' : v[c-1] = x := by
            have := List.getElem?_eq_getElem hlt
            rw [this] at hx; exact Option.some.inj hx
          obtain ⟨i, hne, hi⟩ := List.mem_eraseIdx_iff_getElem?.mp h
          -- two positions with same element
          have hi' : i < v.length := by
            rcases Nat.lt_or_ge i v.length with h' | h'
            · exact h'
            · rw [List.getElem?_eq_none h'] at hi; cases hi
          have : v[i] = x := by
            rw [List.getElem?_eq_getElem hi'] at hi; exact Option.some.inj hi
          have := (List.getElem_inj (h₀ := hi') (h₁ := hlt) hvnd).mp (by rw [this, hx'])
          exact hne this
        · have hnd2 : (v ++ appended q).Nodup := by simpa [appended] using hnd
          have hxv : x ∈ v := List.mem_of_getElem? hx
          exact (List.nodup_append.mp hnd2).2.2 x hxv x h rfl
      · simp only [if_neg hce]
        by_cases hgt : c > e
        · simp only [if_pos hgt]
          have := ih (v.eraseIdx (e-1)) (c-1) hq (by omega) (by omega) hnd'
          have hget : (v.eraseIdx (e-1))[c-1-1]? = v[c-1]? := by
            rw [List.getElem?_eraseIdx]
            have : ¬ (c - 1 - 1 < e - 1) := by omega
            simp only [this, if_false]
            congr 1; omega
          rw [hget] at this
          exact this
        · simp only [if_neg hgt]
          have := ih (v.eraseIdx (e-1)) c hq h1 (by omega) hnd'
          have hget : (v.eraseIdx (e-1))[c-1]? = v[c-1]? := by
            rw [List.getElem?_eraseIdx]
            have : c - 1 < e - 1 := by omega
            simp only [this, if_true]
          rw [hget] at this
          exact this

end Tracker
