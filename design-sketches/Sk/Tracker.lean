namespace Tracker

/-- ids are Nat; a view is a list of distinct ids -/
abbrev View := List Nat

inductive Upd where
  | expunge (k : Nat)                 -- 1-based, in the numbering of the view it is applied to
  | exists_ (prev n : Nat) (ids : List Nat)  -- count goes prev → n, ghost: appended ids
  | other
deriving Repr, DecidableEq

def applyU (v : View) : Upd → View
  | .expunge k => v.eraseIdx (k-1)
  | .exists_ _ _ ids => v ++ ids
  | .other => v

def applyAll (q : List Upd) (v : View) : View := q.foldl applyU v

/-- mirror of DecodeSeqNum's loop (tracker.go:231-258): `none` = early `return 0` -/
def decLoop : List Upd → Nat → Option Nat
  | [], c => some c
  | .expunge e :: q, c => if c = e then none else if c > e then decLoop q (c-1) else decLoop q c
  | _ :: q, c => decLoop q c

def decode (q : List Upd) (numMessages c : Nat) : Nat :=
  if c = 0 then 0 else
  match decLoop q c with
  | none => 0
  | some r => if r > numMessages then 0 else r

/-- mirror of the FIXED EncodeSeqNum loop, walking the queue backwards -/
def encLoop : List Upd → Nat → Option Nat     -- list is the queue REVERSED
  | [], s => some s
  | .exists_ prev _ _ :: q, s => if s > prev then none else encLoop q s
  | .expunge e :: q, s => if s ≥ e then encLoop q (s+1) else encLoop q s
  | .other :: q, s => encLoop q s

def encode (q : List Upd) (numMessages s : Nat) : Nat :=
  if s = 0 then 0 else if s > numMessages then 0 else
  match encLoop q.reverse s with
  | none => 0
  | some r => r

/-- validity of an update w.r.t. the view it is applied to -/
def ValidU (v : View) : Upd → Prop
  | .expunge k => 1 ≤ k ∧ k ≤ v.length
  | .exists_ prev n ids => prev = v.length ∧ n = v.length + ids.length
  | .other => True

def ValidAll : List Upd → View → Prop
  | [], _ => True
  | u :: q, v => ValidU v u ∧ ValidAll q (applyU v u)

/-- position (1-based) of the element at 1-based index c of v, inside M; 0 if absent -/
def posOf (x : Nat) (l : List Nat) : Nat := if x ∈ l then l.idxOf x + 1 else 0

end Tracker
