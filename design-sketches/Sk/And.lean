namespace SearchAnd

structure Crit where
  larger  : Int := 0
  smaller : Int := 0
  since   : Int := 0      -- 0 = Go zero time = unset
  before  : Int := 0
  flags   : List Nat := []
deriving DecidableEq, Repr

structure Msg where
  size  : Int
  day   : Int
  flags : List Nat

def matchDate (t since before : Int) : Bool :=
  !(since ≠ 0 && t < since) && !(before ≠ 0 && !(t < before))

def okLarger (l sz : Int) : Bool := !(l ≠ 0 && sz ≤ l)
def okSmaller (s sz : Int) : Bool := !(s ≠ 0 && sz ≥ s)
def andLargerGo (al bl : Int) : Int := if al = 0 || bl > al then bl else al
def andSmallerGo (as bs : Int) : Int := if as = 0 || bs < as then bs else as
def andSmallerFixed (as bs : Int) : Int := if bs ≠ 0 && (as = 0 || bs < as) then bs else as

def Crit.matches (c : Crit) (m : Msg) : Bool :=
  matchDate m.day c.since c.before
  && c.flags.all (· ∈ m.flags)
  && okLarger c.larger m.size
  && okSmaller c.smaller m.size

def isect (since : Bool) (t1 t2 : Int) : Int :=
  if t1 = 0 then t2 else if t2 = 0 then t1
  else if since then (if t1 > t2 then t1 else t2) else (if t1 < t2 then t1 else t2)

/-- search.go:66-92 as it stands -/
def Crit.andGo (a b : Crit) : Crit :=
  { larger  := andLargerGo a.larger b.larger
    smaller := andSmallerGo a.smaller b.smaller
    since   := isect true a.since b.since
    before  := isect false a.before b.before
    flags   := a.flags ++ b.flags }

/-- with the one-line repair -/
def Crit.andFixed (a b : Crit) : Crit :=
  { a.andGo b with
    smaller := andSmallerFixed a.smaller b.smaller }

theorem and_counterexample :
    ¬ ∀ (a b : Crit) (m : Msg), (a.andGo b).matches m = (a.matches m && b.matches m) := by
  intro h
  have := h { smaller := 5 } { larger := 1 } { size := 12, day := 0, flags := [] }
  revert this; decide

theorem larger_and (al bl sz : Int) (hs : 0 ≤ sz) :
    okLarger (andLargerGo al bl) sz = (okLarger al sz && okLarger bl sz) := by
  unfold okLarger andLargerGo
  by_cases h1 : al = 0 <;> by_cases h2 : bl = 0 <;> by_cases h3 : bl > al <;>
    simp [*] <;> (try rw [Bool.eq_iff_iff]) <;> (try simp) <;> omega

theorem smaller_and (as bs sz : Int) :
    okSmaller (andSmallerFixed as bs) sz = (okSmaller as sz && okSmaller bs sz) := by
  unfold okSmaller andSmallerFixed
  by_cases h1 : as = 0 <;> by_cases h2 : bs = 0 <;> by_cases h3 : bs < as <;>
    simp [*] <;> (try rw [Bool.eq_iff_iff]) <;> (try simp) <;> omega

theorem date_and (t s1 s2 b1 b2 : Int) :
    matchDate t (isect true s1 s2) (isect false b1 b2) = (matchDate t s1 b1 && matchDate t s2 b2) := by
  unfold matchDate isect
  by_cases h1 : s1 = 0 <;> by_cases h2 : s2 = 0 <;> by_cases h3 : b1 = 0 <;> by_cases h4 : b2 = 0 <;>
  by_cases h5 : s1 > s2 <;> by_cases h6 : b1 < b2 <;>
    simp [*] <;> (try rw [Bool.eq_iff_iff]) <;> (try simp) <;> omega

theorem and_fixed (a b : Crit) (m : Msg) (hs : 0 ≤ m.size) :
    (a.andFixed b).matches m = (a.matches m && b.matches m) := by
  simp only [Crit.matches, Crit.andFixed, Crit.andGo, List.all_append]
  rw [larger_and _ _ _ hs, smaller_and, date_and]
  generalize matchDate m.day a.since a.before = d1
  generalize matchDate m.day b.since b.before = d2
  generalize (a.flags.all fun x => decide (x ∈ m.flags)) = f1
  generalize (b.flags.all fun x => decide (x ∈ m.flags)) = f2
  generalize okLarger a.larger m.size = l1
  generalize okLarger b.larger m.size = l2
  generalize okSmaller a.smaller m.size = s1
  generalize okSmaller b.smaller m.size = s2
  cases d1 <;> cases d2 <;> cases f1 <;> cases f2 <;> cases l1 <;> cases l2 <;> cases s1 <;> cases s2 <;> rfl

end SearchAnd
