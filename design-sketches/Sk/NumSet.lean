namespace NumSet

def W : Nat := 4294967296   -- 2^32

structure Range where
  start : Nat
  stop  : Nat
deriving Repr, DecidableEq, BEq

/-- numset.go:21-26 -/
def Range.contains (s : Range) (q : Nat) : Bool :=
  if q = 0 then s.stop = 0
  else s.start ≠ 0 && s.start ≤ q && (q ≤ s.stop || s.stop = 0)

/-- numset.go:29-31 -/
def Range.less (s : Range) (q : Nat) : Bool :=
  (s.stop < q || q = 0) && s.stop ≠ 0

/-- numset.go:37-66; `(s.stop + 1) % W` is the uint32 wrap of `s.Stop+1` -/
def Range.merge (s t : Range) : Range × Bool :=
  if s = t then (s, true)
  else if s.start ≠ 0 && t.start ≠ 0 then
    let (s', t') := if s.start > t.start then (t, s) else (s, t)
    if (s'.stop ≥ t'.stop && t'.stop ≠ 0) || s'.stop = 0 then (s', true)
    else if (s'.stop + 1) % W ≥ t'.start || s'.stop = W - 1 then (⟨s'.start, t'.stop⟩, true)
    else (s, false)
  else if s.start = 0 then
    if t.stop = 0 then (t, true) else (s, false)
  else if s.stop = 0 then (s, true)
  else (s, false)

abbrev Set := List Range

/-- numset.go:239-252, binary search mirrored with fuel = length -/
def searchLoop (s : Set) (q : Nat) : Nat → Nat → Nat → Nat × Nat
  | 0, lo, hi => (lo, hi)
  | fuel+1, lo, hi =>
    if lo < hi then
      let mid := (lo + hi) / 2
      if (s.getD mid ⟨0,0⟩).less q then searchLoop s q fuel (mid+1) hi
      else searchLoop s q fuel lo mid
    else (lo, hi)

def search (s : Set) (q : Nat) : Nat × Bool :=
  if s.length = 0 then (0, false) else
  let (lo, _) := searchLoop s q s.length 0 (s.length - 1)
  let r := s.getD lo ⟨0,0⟩
  if r.less q then (s.length, false) else (lo, r.contains q)

def insertAt (s : Set) (i : Nat) (v : Range) : Set := s.take i ++ v :: s.drop i

/-- the forward-merge loop numset.go:198-208: s[i] absorbs s[i+1..] while mergeable -/
def mergeFwd (cur : Range) : Set → Set
  | [] => [cur]
  | r :: rest =>
    let (m, ok) := cur.merge r
    if ok then mergeFwd m rest else cur :: r :: rest

/-- numset.go:173-209 -/
def insert (s : Set) (v : Range) : Set :=
  let (i, _) := search s v.start
  let (prevMerged, merged) :=
    if i > 0 then
      let (m, ok) := (s.getD (i-1) ⟨0,0⟩).merge v
      (m, ok)
    else (⟨0,0⟩, false)
  let s1 := if i > 0 then s.set (i-1) prevMerged else s    -- s[i-1], merged = s[i-1].Merge(v): assigns even when !ok (returns s unmodified)
  if i = s.length then
    if !merged then insertAt s1 i v else s1
  else if merged then
    -- i--, continue merging forward from i-1
    s1.take (i-1) ++ mergeFwd (s1.getD (i-1) ⟨0,0⟩) (s1.drop i)
  else
    let (m, ok) := (s1.getD i ⟨0,0⟩).merge v
    if !ok then insertAt s1 i v
    else s1.take i ++ mergeFwd m (s1.drop (i+1))

def addNum (s : Set) (q : Nat) : Set := insert s ⟨q, q⟩
def addRange (s : Set) (a b : Nat) : Set :=
  if (b < a && b ≠ 0) || a = 0 then insert s ⟨b, a⟩ else insert s ⟨a, b⟩

def contains (s : Set) (q : Nat) : Bool := let (_, ok) := search s q; ok && q ≠ 0
def dynamic (s : Set) : Bool := match s.getLast? with | some r => r.stop = 0 | none => false

def Range.toStr (v : Range) : String :=
  if v.start = 0 then "*"
  else if v.start = v.stop then toString v.start
  else if v.stop = 0 then s!"{v.start}:*" else s!"{v.start}:{v.stop}"
def toStr (s : Set) : String := ",".intercalate (s.map Range.toStr)

def ofRanges (l : List (Nat × Nat)) : Set := l.foldl (fun s (a,b) => addRange s a b) []

#eval toStr (ofRanges [(1,1),(4,4),(2,2)])            -- 1:2,4
#eval toStr (ofRanges [(1,5),(7,9),(6,6)])            -- 1:9
#eval toStr (ofRanges [(0,0),(5,5),(3,0)])            -- 3:*
#eval toStr (ofRanges [(4294967294,4294967295),(1,1)]) -- 1,4294967294:4294967295
#eval toStr (ofRanges [(4294967295,4294967295),(4294967290,0)]) -- 4294967290:*
#eval toStr (ofRanges [(10,20),(1,2),(30,0),(3,9),(21,29)]) -- 1:*
#eval toStr (ofRanges [(5,0),(0,0)])                  -- 5:*
#eval toStr (ofRanges [(0,0),(5,5)])                  -- 5,*
#eval (contains (ofRanges [(0,0),(5,5)]) 7, dynamic (ofRanges [(0,0),(5,5)]))
end NumSet
