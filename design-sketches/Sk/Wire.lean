namespace Wire
abbrev B := Nat
abbrev Bytes := List B

/-- Encoder.Quoted body (encoder.go:91-97) -/
def quoteBody : Bytes → Bytes
  | [] => []
  | c :: cs => if c = 34 || c = 92 then 92 :: c :: quoteBody cs else c :: quoteBody cs

def encQuoted (s : Bytes) : Bytes := 34 :: quoteBody s ++ [34]

/-- Decoder.Quoted loop (decoder.go:372-390); none = ran out of input (readByte error).
    `esc` = the previous byte was a backslash. -/
def unq : Bool → Bytes → Option (Bytes × Bytes)   -- (value, rest)
  | _, [] => none
  | true, c :: cs => (unq false cs).map fun (v, r) => (c :: v, r)
  | false, c :: cs =>
    if c = 34 then some ([], cs)
    else if c = 92 then unq true cs
    else (unq false cs).map fun (v, r) => (c :: v, r)

def decQuoted : Bytes → Option (Bytes × Bytes)
  | 34 :: cs => unq false cs
  | _ => none

theorem unquote_quote (s rest : Bytes) : unq false (quoteBody s ++ 34 :: rest) = some (s, rest) := by
  induction s with
  | nil => simp [quoteBody, unq]
  | cons c cs ih =>
    unfold quoteBody
    split
    · simp [unq, ih]
    · rename_i h
      simp only [Bool.or_eq_true, decide_eq_true_eq, not_or] at h
      simp [unq, h.1, h.2, ih]

theorem quoted_rt (s rest : Bytes) : decQuoted (encQuoted s ++ rest) = some (s, rest) := by
  simp [encQuoted, decQuoted, unquote_quote]

/-- decimal -/
def digitsAux : Nat → Nat → List Nat → List Nat
  | 0, _, acc => acc
  | fuel+1, n, acc => if n < 10 then (48 + n) :: acc else digitsAux fuel (n / 10) ((48 + n % 10) :: acc)

def digits (n : Nat) : List Nat := digitsAux (n+1) n []

def parseDigits : List Nat → Nat → Nat × List Nat    -- accumulates while digits
  | [], acc => (acc, [])
  | c :: cs, acc => if 48 ≤ c ∧ c ≤ 57 then parseDigits cs (acc * 10 + (c - 48)) else (acc, c :: cs)

theorem parseDigits_append_nondigit (ds : List Nat) (hd : ∀ d ∈ ds, 48 ≤ d ∧ d ≤ 57) (rest : List Nat)
    (hr : ∀ c, rest.head? = some c → ¬ (48 ≤ c ∧ c ≤ 57)) (acc : Nat) :
    parseDigits (ds ++ rest) acc = ((ds.foldl (fun a d => a * 10 + (d - 48)) acc), rest) := by
  induction ds generalizing acc with
  | nil =>
    cases rest with
    | nil => simp [parseDigits]
    | cons c cs => simp [parseDigits, hr c (by simp)]
  | cons d ds ih =>
    have := hd d (by simp)
    simp only [List.cons_append, parseDigits, this, and_self, if_true, List.foldl_cons]
    exact ih (fun x hx => hd x (by simp [hx])) _

theorem digitsAux_spec (fuel n : Nat) (acc : List Nat) (h : n < fuel) :
    (∀ d ∈ digitsAux fuel n [], 48 ≤ d ∧ d ≤ 57) ∧
    digitsAux fuel n acc = digitsAux fuel n [] ++ acc ∧
    (digitsAux fuel n []).foldl (fun a d => a * 10 + (d - 48)) 0 = n := by
  induction fuel generalizing n acc with
  | zero => omega
  | succ f ih =>
    unfold digitsAux
    split
    · rename_i hlt
      refine ⟨?_, by simp, ?_⟩
      · intro d hd; simp at hd; omega
      · simp
    · rename_i hge
      have hlt : n / 10 < f := by omega
      obtain ⟨h1, _, h3⟩ := ih (n / 10) [] hlt
      have e1 := (ih (n/10) [48 + n % 10] hlt).2.1
      have e2 := (ih (n/10) ((48 + n % 10) :: acc) hlt).2.1
      refine ⟨?_, ?_, ?_⟩
      · rw [e1]; intro d hd
        simp only [List.mem_append, List.mem_singleton] at hd
        rcases hd with hd | hd
        · exact h1 d hd
        · omega
      · rw [e2, e1]; simp
      · rw [e1, List.foldl_append, h3]; simp; omega

theorem number_rt (n : Nat) (rest : List Nat) (hr : ∀ c, rest.head? = some c → ¬ (48 ≤ c ∧ c ≤ 57)) :
    parseDigits (digits n ++ rest) 0 = (n, rest) := by
  obtain ⟨h1, _, h3⟩ := digitsAux_spec (n+1) n [] (by omega)
  unfold digits
  rw [parseDigits_append_nondigit _ h1 rest hr, h3]

end Wire
