import Sk.NumSetSearch
namespace NumSet

/-- well-formed range: "*" = ⟨0,0⟩, "n:*" = ⟨n,0⟩, static n..m with 0 < n ≤ m < 2^32 -/
def WF (r : Range) : Prop :=
  (r.start = 0 ∧ r.stop = 0) ∨ (0 < r.start ∧ r.start < W ∧ (r.stop = 0 ∨ (r.start ≤ r.stop ∧ r.stop < W)))

/-- canonical form: every element well-formed; every element but the last is static; a static
    neighbour pair is separated by a gap (`a.stop + 1 < b.start`), or the right one is "*" -/
def Canon : Set → Prop
  | [] => True
  | [r] => WF r
  | a :: b :: rest => WF a ∧ a.stop ≠ 0 ∧ (b.start = 0 ∨ a.stop + 1 < b.start) ∧ Canon (b :: rest)

theorem Canon.tail {a : Range} {s : Set} (h : Canon (a :: s)) : Canon s := by
  cases s with
  | nil => trivial
  | cons b rest => exact h.2.2.2

theorem Canon.head {a : Range} {s : Set} (h : Canon (a :: s)) : WF a := by
  cases s with
  | nil => exact h
  | cons b rest => exact h.1

/-- in a canonical set, every range before a given position is static and ends strictly below the
    start of the range at that position (unless that one is "*") -/
theorem canon_before (s : Set) (h : Canon s) :
    ∀ i j, i < j → j < s.length →
      (s.getD i ⟨0,0⟩).stop ≠ 0 ∧
      ((s.getD j ⟨0,0⟩).start = 0 ∨ (s.getD i ⟨0,0⟩).stop + 1 < (s.getD j ⟨0,0⟩).start) := by
  induction s with
  | nil => intro i j _ hj; simp at hj
  | cons a s ih =>
    intro i j hij hj
    cases s with
    | nil => simp at hj; omega
    | cons b rest =>
      obtain ⟨hwa, hsa, hgap, hc⟩ := h
      cases i with
      | succ i' =>
        cases j with
        | zero => omega
        | succ j' =>
          have := ih hc i' j' (by omega) (by simpa using hj)
          simpa using this
      | zero =>
        cases j with
        | zero => omega
        | succ j' =>
          refine ⟨by simpa using hsa, ?_⟩
          cases j' with
          | zero => simpa using hgap
          | succ j'' =>
            -- chain through b
            have hb := ih hc 0 (j''+1) (by omega) (by simpa using hj)
            simp only [List.getD_cons_zero, List.getD_cons_succ] at hb ⊢
            rcases hb.2 with h0 | hlt
            · exact Or.inl h0
            · right
              have hwb := Canon.head hc
              rcases hgap with hb0 | hg
              · -- b = "*" has start 0 but then b.stop = 0, contradicting hb.1
                rcases hwb with ⟨_, hs0⟩ | ⟨hpos, _⟩
                · exact absurd hs0 hb.1
                · omega
              · rcases hwb with ⟨hs, _⟩ | ⟨_, _, hst⟩
                · omega
                · rcases hst with h0 | ⟨hle, _⟩
                  · exact absurd h0 hb.1
                  · omega

theorem canon_wf_at (s : Set) (h : Canon s) : ∀ j, j < s.length → WF (s.getD j ⟨0,0⟩) := by
  induction s with
  | nil => intro j hj; simp at hj
  | cons a s ih =>
    intro j hj
    cases j with
    | zero => exact Canon.head h
    | succ j' => simpa using ih (Canon.tail h) j' (by simpa using hj)

theorem canon_mono (s : Set) (h : Canon s) (q : Nat) : Mono s q := by
  intro i j hij hj hless
  by_cases hije : i = j
  · subst hije; exact hless
  · have hb := canon_before s h i j (by omega) hj
    simp only [Range.less, Bool.and_eq_true, Bool.or_eq_true, decide_eq_true_eq, bne_iff_ne, ne_eq] at hless ⊢
    refine ⟨?_, by simpa using hb.1⟩
    rcases hless.1 with hlt | hq0
    · left
      -- stop_i + 1 < start_j ≤ stop_j < q   (j is static since it is `less`)
      have hwj : WF (s.getD j ⟨0,0⟩) := canon_wf_at s h j hj
      have hsj : (s.getD j ⟨0,0⟩).stop ≠ 0 := by simpa using hless.2
      rcases hb.2 with h0 | hg
      · rcases hwj with ⟨_, hs0⟩ | ⟨hpos, _⟩
        · exact absurd hs0 hsj
        · omega
      · rcases hwj with ⟨hs, _⟩ | ⟨_, _, hst⟩
        · omega
        · rcases hst with h0 | ⟨hle, _⟩
          · exact absurd h0 hsj
          · omega
    · exact Or.inr hq0

end NumSet
