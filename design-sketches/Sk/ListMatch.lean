namespace ListMatch

abbrev B := Nat  -- a byte

def isWild (c : B) : Bool := c = 42 || c = 37   -- '*' '%'

/-- declarative semantics -/
inductive Matches (delim : Option B) : List B → List B → Prop   -- pattern, name
  | nil : Matches delim [] []
  | lit (c ps ns) : isWild c = false → Matches delim ps ns → Matches delim (c :: ps) (c :: ns)
  | star (ps pre ns name) : name = pre ++ ns → Matches delim ps ns → Matches delim (42 :: ps) name
  | pct (ps pre ns name) : name = pre ++ ns → (∀ d, delim = some d → d ∉ pre) → Matches delim ps ns → Matches delim (37 :: ps) name

/-- `expand` is the `for j` loop of matchList (list.go:318-330): try every suffix of `name`,
    stopping (after trying it) at the first delimiter when the wildcard is '%'.
    `k` is the continuation "matchList(_, delim, rest)". -/
def expand (delim : Option B) (pct : Bool) (k : List B → Bool) : List B → Bool
  | [] => k []
  | n :: ns =>
    if pct && delim = some n then k (n :: ns)
    else k (n :: ns) || expand delim pct k ns

/-- matchList, char-level mirror: literal chunk is compared byte by byte (HasPrefix/TrimPrefix),
    first wildcard dispatches to `expand`. Structural on the pattern. -/
def matchList (delim : Option B) : List B → List B → Bool   -- pattern, name
  | [], name => name.isEmpty
  | c :: ps, name =>
    if isWild c then expand delim (c = 37) (matchList delim ps) name
    else match name with
      | [] => false
      | n :: ns => n = c && matchList delim ps ns

theorem expand_iff (delim : Option B) (pct : Bool) (k : List B → Bool) (name : List B) :
    expand delim pct k name = true ↔
      ∃ pre suf, name = pre ++ suf ∧ k suf = true ∧ (pct = true → ∀ d, delim = some d → d ∉ pre) := by
  induction name with
  | nil =>
    simp only [expand]
    constructor
    · intro h; exact ⟨[], [], rfl, h, by intro _ d _; simp⟩
    · rintro ⟨pre, suf, h, hk, _⟩
      have : suf = [] := by
        have := congrArg List.length h; simp at this; exact List.eq_nil_of_length_eq_zero (by omega)
      rw [this] at hk; exact hk
  | cons n ns ih =>
    simp only [expand]
    split
    · rename_i hstop
      simp only [Bool.and_eq_true, decide_eq_true_eq] at hstop
      constructor
      · intro h; exact ⟨[], n :: ns, rfl, h, by intro _ d _; simp⟩
      · rintro ⟨pre, suf, h, hk, hp⟩
        cases pre with
        | nil => simp at h; rw [← h] at hk; exact hk
        | cons p pre' =>
          simp at h
          have := hp hstop.1 n hstop.2
          simp [h.1] at this
    · rename_i hstop
      simp only [Bool.or_eq_true, ih]
      constructor
      · rintro (h | ⟨pre, suf, h, hk, hp⟩)
        · exact ⟨[], n :: ns, rfl, h, by intro _ d _; simp⟩
        · refine ⟨n :: pre, suf, by simp [h], hk, ?_⟩
          intro hpct d hd
          simp only [List.mem_cons, not_or]
          refine ⟨?_, hp hpct d hd⟩
          intro hdn
          apply hstop
          simp [hpct, hd, hdn]
      · rintro ⟨pre, suf, h, hk, hp⟩
        cases pre with
        | nil => left; simp at h; rw [← h] at hk; exact hk
        | cons p pre' =>
          right
          simp at h
          refine ⟨pre', suf, h.2, hk, ?_⟩
          intro hpct d hd hmem
          exact hp hpct d hd (List.mem_cons_of_mem _ hmem)

theorem matchList_iff (delim : Option B) (pat name : List B) :
    matchList delim pat name = true ↔ Matches delim pat name := by
  induction pat generalizing name with
  | nil =>
    simp only [matchList]
    constructor
    · intro h; have : name = [] := by simpa using h
      subst this; exact .nil
    · intro h; cases h; rfl
  | cons c ps ih =>
    simp only [matchList]
    by_cases hw : isWild c = true
    · simp only [hw, if_true]
      rw [expand_iff]
      have hc : c = 42 ∨ c = 37 := by simpa [isWild] using hw
      constructor
      · rintro ⟨pre, suf, rfl, hk, hp⟩
        have hm := (ih suf).mp hk
        rcases hc with rfl | rfl
        · exact .star ps pre suf _ rfl hm
        · exact .pct ps pre suf _ rfl (hp (by simp)) hm
      · intro h
        rcases hc with rfl | rfl
        · cases h with
          | lit _ _ _ hnw _ => simp [isWild] at hnw
          | star _ pre ns _ he hm => exact ⟨pre, ns, he, (ih ns).mpr hm, by simp⟩
        · cases h with
          | lit _ _ _ hnw _ => simp [isWild] at hnw
          | pct _ pre ns _ he hd hm => exact ⟨pre, ns, he, (ih ns).mpr hm, fun _ => hd⟩
    · have hw' : isWild c = false := by simpa using hw
      simp only [hw', Bool.false_eq_true, if_false]
      cases name with
      | nil =>
        simp only
        constructor
        · intro h; cases h
        · intro h; cases h <;> simp_all [isWild]
      | cons n ns =>
        simp only [Bool.and_eq_true, decide_eq_true_eq]
        constructor
        · rintro ⟨rfl, h⟩; exact .lit _ _ _ hw' ((ih ns).mp h)
        · intro h
          cases h with
          | lit _ _ _ _ hm => exact ⟨rfl, (ih ns).mpr hm⟩
          | star _ pre ns' _ _ _ => simp [isWild] at hw'
          | pct _ pre ns' _ _ _ _ => simp [isWild] at hw'

end ListMatch
