import Sk.NumSet
namespace NumSet

/-- the predicate sequence is monotone: once a range is not `less q`, no later one is -/
def Mono (s : Set) (q : Nat) : Prop :=
  ∀ i j, i ≤ j → j < s.length → (s.getD j ⟨0,0⟩).less q = true → (s.getD i ⟨0,0⟩).less q = true

theorem searchLoop_spec (s : Set) (q : Nat) (hm : Mono s q) :
    ∀ fuel lo hi, lo ≤ hi → hi < s.length → hi - lo ≤ fuel →
      (∀ j, j < lo → (s.getD j ⟨0,0⟩).less q = true) →
      (hi = s.length - 1 ∨ (s.getD hi ⟨0,0⟩).less q = false) →
      (searchLoop s q fuel lo hi).1 = (searchLoop s q fuel lo hi).2 ∧
      (searchLoop s q fuel lo hi).1 < s.length ∧
      (∀ j, j < (searchLoop s q fuel lo hi).1 → (s.getD j ⟨0,0⟩).less q = true) ∧
      ((searchLoop s q fuel lo hi).1 = s.length - 1 ∨
        (s.getD (searchLoop s q fuel lo hi).1 ⟨0,0⟩).less q = false) := by
  intro fuel
  induction fuel with
  | zero =>
    intro lo hi h1 h2 h3 hl hr
    have : lo = hi := by omega
    subst this
    simp only [searchLoop]
    exact ⟨trivial, h2, hl, hr⟩
  | succ f ih =>
    intro lo hi h1 h2 h3 hl hr
    simp only [searchLoop]
    by_cases hlt : lo < hi
    · simp only [hlt, if_true]
      by_cases hless : (s.getD ((lo + hi) / 2) ⟨0,0⟩).less q = true
      · simp only [hless, if_true]
        apply ih ((lo+hi)/2+1) hi (by omega) h2 (by omega)
        · intro j hj
          exact hm j ((lo+hi)/2) (by omega) (by omega) hless
        · exact hr
      · simp only [hless, Bool.false_eq_true, if_false]
        apply ih lo ((lo+hi)/2) (by omega) (by omega) (by omega) hl
        right; simpa using hless
    · have : lo = hi := by omega
      subst this
      simp only [Nat.lt_irrefl, if_false]
      exact ⟨trivial, h2, hl, hr⟩

/-- `search` returns the first index whose range is not `less q` (or the length) -/
theorem search_first (s : Set) (q : Nat) (hm : Mono s q) :
    (search s q).1 ≤ s.length ∧
    (∀ j, j < (search s q).1 → j < s.length → (s.getD j ⟨0,0⟩).less q = true) ∧
    ((search s q).1 < s.length → (s.getD (search s q).1 ⟨0,0⟩).less q = false) ∧
    ((search s q).2 = true → (search s q).1 < s.length ∧ (s.getD (search s q).1 ⟨0,0⟩).contains q = true) := by
  unfold search
  by_cases h0 : s.length = 0
  · simp [h0]
  · simp only [h0, if_false]
    have hs := searchLoop_spec s q hm s.length 0 (s.length - 1) (by omega) (by omega) (by omega)
      (by intro j hj; omega) (Or.inl rfl)
    generalize searchLoop s q s.length 0 (s.length - 1) = r at hs
    obtain ⟨lo, hi⟩ := r
    simp only at hs
    obtain ⟨heq, hhi, hl, hr⟩ := hs
    subst heq
    simp only
    by_cases hless : (s.getD lo ⟨0,0⟩).less q = true
    · simp only [hless, if_true]
      have hlast : lo = s.length - 1 := by
        rcases hr with h | h
        · exact h
        · rw [hless] at h; cases h
      refine ⟨Nat.le_refl _, ?_, by omega, by simp⟩
      intro j _ hj
      by_cases hjl : j < lo
      · exact hl j hjl
      · have : j = lo := by omega
        subst this; exact hless
    · have hless' : (s.getD lo ⟨0,0⟩).less q = false := by simpa using hless
      simp only [hless', Bool.false_eq_true, if_false]
      exact ⟨by omega, fun j hj _ => hl j hj, fun _ => trivial, fun h => ⟨hhi, h⟩⟩

end NumSet
