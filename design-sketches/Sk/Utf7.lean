namespace Utf7

abbrev Bytes := List Nat

def alphabet : List Nat := "ABCDEFGHIJKLMNOPQRSTUVWXYZabcdefghijklmnopqrstuvwxyz0123456789+,".toList.map Char.toNat
def b64char (s : Nat) : Nat := alphabet.getD s 0
def b64val (c : Nat) : Option Nat := let i := alphabet.idxOf c; if i < 64 then some i else none

/-- UTF-16BE bytes of a scalar value (encoder.go:63-73) -/
def utf16be (c : Nat) : Bytes :=
  if c < 0x10000 then [c / 256, c % 256]
  else
    let h := 0xD800 + (c - 0x10000) / 0x400
    let l := 0xDC00 + (c - 0x10000) % 0x400
    [h / 256, h % 256, l / 256, l % 256]

/-- base64 without padding (encoder.go:75-90 after stripping '=') -/
def b64enc : Bytes → Bytes
  | b0 :: b1 :: b2 :: r => b64char (b0 / 4) :: b64char ((b0 % 4) * 16 + b1 / 16) :: b64char ((b1 % 16) * 4 + b2 / 64) :: b64char (b2 % 64) :: b64enc r
  | [b0, b1] => [b64char (b0 / 4), b64char ((b0 % 4) * 16 + b1 / 16), b64char ((b1 % 16) * 4)]
  | [b0] => [b64char (b0 / 4), b64char ((b0 % 4) * 16)]
  | [] => []

def printable (c : Nat) : Bool := 0x20 ≤ c && c ≤ 0x7e

def flush (acc : List Nat) : Bytes :=
  if acc = [] then [] else 38 :: b64enc (acc.flatMap utf16be) ++ [45]

/-- encoder.Transform with atEOF (encoder.go:14-56), on scalar values; `acc` = pending run of
    non-printable scalars (the Go code finds the run by scanning ahead; same output) -/
def enc (acc : List Nat) : List Nat → Bytes
  | [] => flush acc
  | c :: cs =>
    if printable c then
      flush acc ++ (if c = 38 then [38, 45] else [c]) ++ enc [] cs
    else enc (acc ++ [c]) cs

def encode (s : List Nat) : Bytes := enc [] s

/-- base64 decode of an unpadded run (decoder.go:104-127): none on bad char or impossible length -/
def b64dec : Bytes → Option Bytes
  | c0 :: c1 :: c2 :: c3 :: r => do
    let s0 ← b64val c0; let s1 ← b64val c1; let s2 ← b64val c2; let s3 ← b64val c3
    let t ← b64dec r
    pure ((s0 * 4 + s1 / 16) :: ((s1 % 16) * 16 + s2 / 4) :: ((s2 % 4) * 64 + s3) :: t)
  | [c0, c1, c2] => do
    let s0 ← b64val c0; let s1 ← b64val c1; let s2 ← b64val c2
    pure [s0 * 4 + s1 / 16, (s1 % 16) * 16 + s2 / 4]
  | [c0, c1] => do
    let s0 ← b64val c0; let s1 ← b64val c1
    pure [s0 * 4 + s1 / 16]
  | [_] => none
  | [] => some []

/-- UTF-16BE bytes to scalars (decoder.go:129-147) -/
def utf16dec : Bytes → Option (List Nat)
  | [] => some []
  | [_] => none
  | h :: l :: r =>
    let u := h * 256 + l
    if 0xD800 ≤ u ∧ u < 0xE000 then
      match r with
      | h2 :: l2 :: r' =>
        let u2 := h2 * 256 + l2
        if u < 0xDC00 ∧ 0xDC00 ≤ u2 ∧ u2 < 0xE000 then
          (utf16dec r').map (((u - 0xD800) * 0x400 + (u2 - 0xDC00) + 0x10000) :: ·)
        else none
      | _ => none
    else if printable u then none
    else (utf16dec r).map (u :: ·)

/-- one shifted segment (decoder.go:46-77) -/
def decSeg (ascii : Bool) (seg : Bytes) : Option (List Nat) :=
  if seg = [] then some [38]
  else if !ascii then none
  else if seg.getLast? = some 61 then none
  else do
    let b ← b64dec seg
    let us ← utf16dec b
    if us = [] then none else some us

/-- decoder.Transform with atEOF. `ascii` is the carried flag; `seg = some acc` means we are
    inside "&…" collecting up to '-' -/
def dec (ascii : Bool) (seg : Option Bytes) : Bytes → Option (List Nat)
  | [] => match seg with | none => some [] | some _ => none          -- unterminated shift
  | c :: cs =>
    match seg with
    | none =>
      if !printable c then none
      else if c ≠ 38 then (dec true none cs).map (c :: ·)
      else dec ascii (some []) cs
    | some acc =>
      if c = 45 then
        match decSeg ascii acc with
        | none => none
        | some out => (dec (acc = []) none cs).map (out ++ ·)
      else if c = 13 ∨ c = 10 then none
      else dec ascii (some (acc ++ [c])) cs

def decode (b : Bytes) : Option (List Nat) := dec true none b

def ofStr (s : String) : List Nat := s.toList.map Char.toNat
def toStr (b : Bytes) : String := String.ofList (b.map Char.ofNat)

#eval toStr (encode (ofStr "R&D é"))          -- R&-D &AOk-
#eval toStr (encode (ofStr "😀"))              -- &2D3eAA-
#eval toStr (encode (ofStr "a\x01~\x7f&é😀")) -- a&AAE-~&AH8-&-&AOnYPd4A-
#eval (decode (ofStr "&Jjo-")).map toStr          -- ☺
#eval (decode (ofStr "&Jjo-&Jjo-")).map toStr     -- none
#eval (decode (ofStr "&2D0-")).map toStr          -- none
#eval (decode (ofStr "&AGE-")).map toStr          -- none
#eval (decode (ofStr "&AOkA6Q-")).map toStr       -- éé
#eval (decode (ofStr "&AAB-"))                    -- some [0]
#eval (decode (ofStr "a&-b")).map toStr           -- a&b
#eval (decode (encode (ofStr "a\x01~\x7f&é😀 €x"))).map toStr
end Utf7
