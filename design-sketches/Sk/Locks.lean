namespace Locks

inductive Act where
  | acq (l : Nat)
  | rel (l : Nat)
deriving DecidableEq, Repr

structure Thr where
  prog : List Act
  held : List Nat
deriving Repr

/-- a thread's remaining program respects the rank order given what it holds, and ends holding nothing -/
def Ordered (rank : Nat → Nat) : List Nat → List Act → Prop
  | held, [] => held = []
  | held, .acq l :: p => (∀ h ∈ held, rank h < rank l) ∧ Ordered rank (l :: held) p
  | held, .rel l :: p => l ∈ held ∧ Ordered rank (held.erase l) p

abbrev State := List Thr

def heldBy (s : State) (l : Nat) : Prop := ∃ t ∈ s, l ∈ t.held

/-- thread i can take a step -/
def enabled (s : State) (t : Thr) : Prop :=
  match t.prog with
  | [] => False
  | .rel _ :: _ => True
  | .acq l :: _ => ¬ heldBy s l

def stepThr (t : Thr) : Thr :=
  match t.prog with
  | [] => t
  | .rel l :: p => ⟨p, t.held.erase l⟩
  | .acq l :: p => ⟨p, l :: t.held⟩

inductive Step : State → State → Prop
  | mk (pre : List Thr) (t : Thr) (post : List Thr) :
      enabled (pre ++ t :: post) t → Step (pre ++ t :: post) (pre ++ stepThr t :: post)

def Inv (rank : Nat → Nat) (s : State) : Prop := ∀ t ∈ s, Ordered rank t.held t.prog

theorem inv_step (rank) (s s' : State) (h : Inv rank s) (st : Step s s') : Inv rank s' := by
  cases st with
  | mk pre t post _ =>
    intro u hu
    simp only [List.mem_append, List.mem_cons] at hu
    rcases hu with hu | rfl | hu
    · exact h u (by simp [hu])
    · have ht := h t (by simp)
      unfold stepThr
      cases hp : t.prog with
      | nil => simpa [hp] using ht
      | cons a p =>
        rw [hp] at ht
        cases a with
        | acq l => exact ht.2
        | rel l => exact ht.2
    · exact h u (by simp [hu])

def unfinished (t : Thr) : Prop := t.prog ≠ []

/-- the lock a blocked thread is waiting for -/
def waits (t : Thr) : Option Nat :=
  match t.prog with
  | .acq l :: _ => some l
  | _ => none

theorem exists_max (f : Thr → Nat) : ∀ (l : List Thr), l ≠ [] → ∃ t ∈ l, ∀ u ∈ l, f u ≤ f t := by
  intro l
  induction l with
  | nil => intro h; exact absurd rfl h
  | cons a l ih =>
    intro _
    by_cases hl : l = []
    · subst hl; exact ⟨a, by simp, by intro u hu; simp at hu; subst hu; exact Nat.le_refl _⟩
    · obtain ⟨t, ht, hmax⟩ := ih hl
      by_cases hc : f t ≤ f a
      · refine ⟨a, by simp, ?_⟩
        intro u hu
        simp only [List.mem_cons] at hu
        rcases hu with rfl | hu
        · exact Nat.le_refl _
        · exact Nat.le_trans (hmax u hu) hc
      · refine ⟨t, by simp [ht], ?_⟩
        intro u hu
        simp only [List.mem_cons] at hu
        rcases hu with rfl | hu
        · omega
        · exact hmax u hu

/-- Main theorem: under the rank discipline, a state with an unfinished thread always has an enabled thread. -/
theorem no_deadlock (rank : Nat → Nat) (s : State) (hinv : Inv rank s)
    (hun : ∃ t ∈ s, unfinished t) : ∃ t ∈ s, enabled s t := by
  -- suppose not
  apply Classical.byContradiction
  intro hno
  have hno' : ∀ t ∈ s, ¬ enabled s t := fun t ht he => hno ⟨t, ht, he⟩
  -- every unfinished thread is blocked on an acquire
  have hblocked : ∀ t ∈ s, unfinished t → ∃ l p, t.prog = .acq l :: p ∧ heldBy s l := by
    intro t ht hu
    have hne := hno' t ht
    unfold enabled at hne
    cases hp : t.prog with
    | nil => exact absurd hp hu
    | cons a p =>
      rw [hp] at hne
      cases a with
      | rel l => exact absurd trivial hne
      | acq l => exact ⟨l, p, rfl, Classical.not_not.mp hne⟩
  -- the sublist of unfinished threads is non-empty; take the one waiting for the highest rank
  let f : Thr → Nat := fun t => match waits t with | some l => rank l + 1 | none => 0
  obtain ⟨t0, ht0, hu0⟩ := hun
  obtain ⟨t, ht, hmax⟩ := exists_max f s (List.ne_nil_of_mem ht0)
  -- t must be unfinished (its f is ≥ f t0 > 0)
  obtain ⟨l0, p0, hp0, _⟩ := hblocked t0 ht0 hu0
  have hft0 : f t0 = rank l0 + 1 := by simp [f, waits, hp0]
  have htun : unfinished t := by
    intro hnil
    have : f t = 0 := by simp [f, waits, hnil]
    have := hmax t0 ht0
    omega
  obtain ⟨l, p, hp, u, hu, hlu⟩ := hblocked t ht htun
  have hft : f t = rank l + 1 := by simp [f, waits, hp]
  -- the holder u holds l; u is unfinished (a finished ordered thread holds nothing)
  have hou := hinv u hu
  have huun : unfinished u := by
    intro hnil
    rw [hnil] at hou
    simp only [Ordered] at hou
    rw [hou] at hlu; cases hlu
  obtain ⟨l', p', hp', _⟩ := hblocked u hu huun
  rw [hp'] at hou
  have hlt : rank l < rank l' := hou.1 l hlu
  have hfu : f u = rank l' + 1 := by simp [f, waits, hp']
  have := hmax u hu
  omega

end Locks
